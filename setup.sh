#!/bin/sh
# Build the driver and warm the Go build cache; offline, from files on disk.
set -e
export GOFLAGS=-mod=mod GOPROXY=off GOSUMDB=off GOTOOLCHAIN=local CGO_ENABLED=0
cd "$(dirname "$0")/harness"
mkdir -p ../bin ../out ../evidence
go build -o ../bin/check ./cmd/check
go test -c -tags verif -o ../out/warm.test ./checks
rm -f ../out/warm.test
# the race-instrumented harness (jobs queuerace of C08 and C14); without a
# usable race detector those jobs are skipped by the driver, so a failure here
# is not fatal
CGO_ENABLED=1 go test -c -race -tags verif -o ../out/warm-race.test ./checks >/dev/null 2>&1 || echo "note: no race detector here (cgo unavailable?)"
rm -f ../out/warm-race.test
echo setup ok
