#!/bin/sh
# Build the driver and warm the Go build cache; offline, from files on disk.
set -e
export GOFLAGS=-mod=mod GOPROXY=off GOSUMDB=off GOTOOLCHAIN=local CGO_ENABLED=0
cd "$(dirname "$0")/harness"
mkdir -p ../bin ../out ../evidence
go build -o ../bin/check ./cmd/check
go test -c -tags verif -o ../out/warm.test ./checks
rm -f ../out/warm.test
echo setup ok
