package main

import (
	"fmt"
	"strconv"
	"strings"
)

// Minimal independent reference: own parser for the generated subset + RV32IM semantics.
type Ins struct {
	Op    string
	Rd    int
	Rs1   int
	Rs2   int
	Imm   int32
	Label string
	Text  string
}

var regNames = []string{"zero", "ra", "sp", "gp", "tp", "t0", "t1", "t2", "s0", "s1", "a0", "a1", "a2", "a3", "a4", "a5", "a6", "a7", "s2", "s3", "s4", "s5", "s6", "s7", "s8", "s9", "s10", "s11", "t3", "t4", "t5", "t6"}

type Prog struct {
	Ins    []Ins
	Labels map[string]int32
}

func (p *Prog) Text() string {
	// labels by pc
	byPc := map[int32][]string{}
	for l, pc := range p.Labels {
		byPc[pc] = append(byPc[pc], l)
	}
	var sb strings.Builder
	for i, in := range p.Ins {
		for _, l := range byPc[int32(i*4)] {
			sb.WriteString(l + ":\n")
		}
		sb.WriteString("    " + in.Text + "\n")
	}
	for _, l := range byPc[int32(len(p.Ins)*4)] {
		sb.WriteString(l + ":\n")
	}
	return sb.String()
}

type RefState struct {
	Reg   [32]int32
	Mem   []int8
	Steps int
	Trace []int32
}

type RefErr struct{ msg string }

func (e RefErr) Error() string { return e.msg }

func runRef(p *Prog, reg [32]int32, mem []int8, maxSteps int) (*RefState, error) {
	st := &RefState{Reg: reg, Mem: append([]int8(nil), mem...)}
	var pc int32
	n := int32(len(p.Ins))
	for {
		if pc < 0 || pc%4 != 0 {
			return st, RefErr{"bad pc"}
		}
		if pc/4 >= n {
			return st, nil
		}
		st.Steps++
		if st.Steps > maxSteps {
			return st, RefErr{"nonterminating"}
		}
		in := p.Ins[pc/4]
		st.Trace = append(st.Trace, pc)
		r := func(i int) int32 { return st.Reg[i] }
		w := func(i int, v int32) {
			if i != 0 {
				st.Reg[i] = v
			}
		}
		next := pc + 4
		br := func(c bool) {
			if c {
				t, ok := p.Labels[in.Label]
				if !ok {
					panic("label")
				}
				next = t
			}
		}
		chk := func(a int32, sz int32) error {
			if a < 0 || int(a)+int(sz) > len(st.Mem) || a%sz != 0 {
				return RefErr{fmt.Sprintf("bad access %d/%d", a, sz)}
			}
			return nil
		}
		switch in.Op {
		case "add":
			w(in.Rd, r(in.Rs1)+r(in.Rs2))
		case "sub":
			w(in.Rd, r(in.Rs1)-r(in.Rs2))
		case "and":
			w(in.Rd, r(in.Rs1)&r(in.Rs2))
		case "or":
			w(in.Rd, r(in.Rs1)|r(in.Rs2))
		case "xor":
			w(in.Rd, r(in.Rs1)^r(in.Rs2))
		case "mul":
			w(in.Rd, r(in.Rs1)*r(in.Rs2))
		case "div":
			if r(in.Rs2) == 0 {
				return st, RefErr{"div0"}
			}
			w(in.Rd, r(in.Rs1)/r(in.Rs2))
		case "rem":
			if r(in.Rs2) == 0 {
				return st, RefErr{"div0"}
			}
			if r(in.Rs1) == -2147483648 && r(in.Rs2) == -1 {
				w(in.Rd, 0)
			} else {
				w(in.Rd, r(in.Rs1)%r(in.Rs2))
			}
		case "slt":
			if r(in.Rs1) < r(in.Rs2) {
				w(in.Rd, 1)
			} else {
				w(in.Rd, 0)
			}
		case "sltu":
			if uint32(r(in.Rs1)) < uint32(r(in.Rs2)) {
				w(in.Rd, 1)
			} else {
				w(in.Rd, 0)
			}
		case "sll":
			w(in.Rd, r(in.Rs1)<<(uint32(r(in.Rs2))&31))
		case "srl":
			w(in.Rd, int32(uint32(r(in.Rs1))>>(uint32(r(in.Rs2))&31)))
		case "sra":
			w(in.Rd, r(in.Rs1)>>(uint32(r(in.Rs2))&31))
		case "addi":
			w(in.Rd, r(in.Rs1)+in.Imm)
		case "andi":
			w(in.Rd, r(in.Rs1)&in.Imm)
		case "ori":
			w(in.Rd, r(in.Rs1)|in.Imm)
		case "xori":
			w(in.Rd, r(in.Rs1)^in.Imm)
		case "slti":
			if r(in.Rs1) < in.Imm {
				w(in.Rd, 1)
			} else {
				w(in.Rd, 0)
			}
		case "slli":
			w(in.Rd, r(in.Rs1)<<(uint32(in.Imm)&31))
		case "srli":
			w(in.Rd, int32(uint32(r(in.Rs1))>>(uint32(in.Imm)&31)))
		case "srai":
			w(in.Rd, r(in.Rs1)>>(uint32(in.Imm)&31))
		case "li":
			w(in.Rd, in.Imm)
		case "lui":
			w(in.Rd, in.Imm<<12)
		case "auipc":
			w(in.Rd, pc+(in.Imm<<12))
		case "mv":
			w(in.Rd, r(in.Rs1))
		case "nop":
		case "lw":
			a := r(in.Rs1) + in.Imm
			if e := chk(a, 4); e != nil {
				return st, e
			}
			v := uint32(uint8(st.Mem[a])) | uint32(uint8(st.Mem[a+1]))<<8 | uint32(uint8(st.Mem[a+2]))<<16 | uint32(uint8(st.Mem[a+3]))<<24
			w(in.Rd, int32(v))
		case "lh":
			a := r(in.Rs1) + in.Imm
			if e := chk(a, 2); e != nil {
				return st, e
			}
			v := uint16(uint8(st.Mem[a])) | uint16(uint8(st.Mem[a+1]))<<8
			w(in.Rd, int32(int16(v)))
		case "lb":
			a := r(in.Rs1) + in.Imm
			if e := chk(a, 1); e != nil {
				return st, e
			}
			w(in.Rd, int32(st.Mem[a]))
		case "sw":
			a := r(in.Rs1) + in.Imm
			if e := chk(a, 4); e != nil {
				return st, e
			}
			v := uint32(r(in.Rs2))
			st.Mem[a], st.Mem[a+1], st.Mem[a+2], st.Mem[a+3] = int8(v), int8(v>>8), int8(v>>16), int8(v>>24)
		case "sh":
			a := r(in.Rs1) + in.Imm
			if e := chk(a, 2); e != nil {
				return st, e
			}
			v := uint32(r(in.Rs2))
			st.Mem[a], st.Mem[a+1] = int8(v), int8(v>>8)
		case "sb":
			a := r(in.Rs1) + in.Imm
			if e := chk(a, 1); e != nil {
				return st, e
			}
			st.Mem[a] = int8(r(in.Rs2))
		case "beq":
			br(r(in.Rs1) == r(in.Rs2))
		case "bne":
			br(r(in.Rs1) != r(in.Rs2))
		case "blt":
			br(r(in.Rs1) < r(in.Rs2))
		case "bge":
			br(r(in.Rs1) >= r(in.Rs2))
		case "ble":
			br(r(in.Rs1) <= r(in.Rs2))
		case "bltu":
			br(uint32(r(in.Rs1)) < uint32(r(in.Rs2)))
		case "bgeu":
			br(uint32(r(in.Rs1)) >= uint32(r(in.Rs2)))
		case "beqz":
			br(r(in.Rs1) == 0)
		case "bnez":
			br(r(in.Rs1) != 0)
		case "j":
			br(true)
		case "jal":
			br(true)
			w(in.Rd, pc+4)
		case "jalr":
			t := r(in.Rs1) + in.Imm
			w(in.Rd, pc+4)
			next = t
		case "ret":
			return st, nil
		default:
			panic("op " + in.Op)
		}
		pc = next
	}
}

func R(i int) string { return regNames[i] }

func mk3(op string, rd, rs1, rs2 int) Ins {
	return Ins{Op: op, Rd: rd, Rs1: rs1, Rs2: rs2, Text: fmt.Sprintf("%s %s, %s, %s", op, R(rd), R(rs1), R(rs2))}
}
func mkI(op string, rd, rs1 int, imm int32) Ins {
	return Ins{Op: op, Rd: rd, Rs1: rs1, Imm: imm, Text: fmt.Sprintf("%s %s, %s, %d", op, R(rd), R(rs1), imm)}
}
func mkLi(rd int, imm int32) Ins {
	return Ins{Op: "li", Rd: rd, Imm: imm, Text: fmt.Sprintf("li %s, %d", R(rd), imm)}
}
func mkU(op string, rd int, imm int32) Ins {
	return Ins{Op: op, Rd: rd, Imm: imm, Text: fmt.Sprintf("%s %s, %d", op, R(rd), imm)}
}
func mkMv(rd, rs int) Ins {
	return Ins{Op: "mv", Rd: rd, Rs1: rs, Text: fmt.Sprintf("mv %s, %s", R(rd), R(rs))}
}
func mkLoad(op string, rd int, off int32, base int) Ins {
	return Ins{Op: op, Rd: rd, Rs1: base, Imm: off, Text: fmt.Sprintf("%s %s, %d(%s)", op, R(rd), off, R(base))}
}
func mkStore(op string, src int, off int32, base int) Ins {
	if op == "sh" {
		return Ins{Op: op, Rs2: src, Rs1: base, Imm: off, Text: fmt.Sprintf("sh %s, %d, %s", R(src), off, R(base))}
	}
	return Ins{Op: op, Rs2: src, Rs1: base, Imm: off, Text: fmt.Sprintf("%s %s, %d(%s)", op, R(src), off, R(base))}
}
func mkBr2(op string, a, b int, l string) Ins {
	return Ins{Op: op, Rs1: a, Rs2: b, Label: l, Text: fmt.Sprintf("%s %s, %s, %s", op, R(a), R(b), l)}
}
func mkBr1(op string, a int, l string) Ins {
	return Ins{Op: op, Rs1: a, Label: l, Text: fmt.Sprintf("%s %s, %s", op, R(a), l)}
}
func mkJ(l string) Ins  { return Ins{Op: "j", Label: l, Text: "j " + l} }
func mkJal(rd int, l string) Ins {
	return Ins{Op: "jal", Rd: rd, Label: l, Text: fmt.Sprintf("jal %s, %s", R(rd), l)}
}
func mkRet() Ins { return Ins{Op: "ret", Text: "ret"} }
func mkNop() Ins { return Ins{Op: "nop", Text: "nop"} }

var _ = strconv.Itoa
