package main

import (
	"flag"
	"fmt"
	"math/rand"
	"os"
	"sort"
	"strings"

	mvp1 "github.com/teivah/majorana/proc/mvp1"
	mvp2 "github.com/teivah/majorana/proc/mvp2"
	mvp3 "github.com/teivah/majorana/proc/mvp3"
	mvp4 "github.com/teivah/majorana/proc/mvp4"
	mvp5 "github.com/teivah/majorana/proc/mvp5"
	mvp6_0 "github.com/teivah/majorana/proc/mvp6-0"
	mvp6_1 "github.com/teivah/majorana/proc/mvp6-1"
	mvp6_2 "github.com/teivah/majorana/proc/mvp6-2"
	mvp6_3 "github.com/teivah/majorana/proc/mvp6-3"
	mvp7_0 "github.com/teivah/majorana/proc/mvp7-0"
	mvp7_1 "github.com/teivah/majorana/proc/mvp7-1"
	mvp8_0 "github.com/teivah/majorana/proc/mvp8-0"
	"github.com/teivah/majorana/risc"
)

type vm interface {
	Run(app risc.Application) (int, error)
	Context() *risc.Context
}

type variant struct {
	name string
	mk   func(mem, par int) vm
	par  bool
}

var variants = []variant{
	{"mvp1", func(m, p int) vm { return mvp1.NewCPU(false, m) }, false},
	{"mvp2", func(m, p int) vm { return mvp2.NewCPU(false, m) }, false},
	{"mvp3", func(m, p int) vm { return mvp3.NewCPU(false, m) }, false},
	{"mvp4", func(m, p int) vm { return mvp4.NewCPU(false, m) }, false},
	{"mvp5", func(m, p int) vm { return mvp5.NewCPU(false, m) }, false},
	{"mvp6-0", func(m, p int) vm { return mvp6_0.NewCPU(false, m, p, p) }, true},
	{"mvp6-1", func(m, p int) vm { return mvp6_1.NewCPU(false, m, p, p) }, true},
	{"mvp6-2", func(m, p int) vm { return mvp6_2.NewCPU(false, m, p, p) }, true},
	{"mvp6-3", func(m, p int) vm { return mvp6_3.NewCPU(false, m, p, p) }, true},
	{"mvp7-0", func(m, p int) vm { return mvp7_0.NewCPU(false, m, p) }, true},
	{"mvp7-1", func(m, p int) vm { return mvp7_1.NewCPU(false, m, p) }, true},
	{"mvp8-0", func(m, p int) vm { return mvp8_0.NewCPU(false, m, p) }, true},
}

type outcome struct {
	kind   string // ok, mismatch-reg, mismatch-mem, error, panic, hang
	detail string
	cycles int
}

func runVariant(v variant, par int, text string, reg [32]int32, mem []int8, ref *RefState, budget int64) (out outcome) {
	app, err := risc.Parse(text)
	if err != nil {
		return outcome{kind: "parse-error", detail: err.Error()}
	}
	m := v.mk(len(mem), par)
	copy(m.Context().Memory, mem)
	for i := 1; i < 32; i++ {
		if reg[i] != 0 {
			m.Context().Registers[risc.RegisterType(i)] = reg[i]
		}
	}
	risc.TickCount = 0
	risc.TickBudget = budget
	risc.OnTick = nil
	if c7, ok := m.(*mvp7_0.CPU); ok && msiCheck {
		risc.OnTick = func() {
			if s := c7.VerifCheck(); s != "" {
				panic("MSI " + s + fmt.Sprintf(" @tick %d", risc.TickCount))
			}
		}
	}
	defer func() {
		if r := recover(); r != nil {
			if _, ok := r.(risc.BudgetExceeded); ok {
				out = outcome{kind: "hang"}
				return
			}
			out = outcome{kind: "panic", detail: fmt.Sprint(r)}
		}
	}()
	cycles, err := m.Run(app)
	if err != nil {
		return outcome{kind: "error", detail: err.Error()}
	}
	ctx := m.Context()
	var diffs []string
	for i := 1; i < 32; i++ {
		got := ctx.Registers[risc.RegisterType(i)]
		if got != ref.Reg[i] {
			diffs = append(diffs, fmt.Sprintf("%s got %d want %d", regNames[i], got, ref.Reg[i]))
		}
	}
	if ctx.Registers[risc.Zero] != 0 {
		diffs = append(diffs, "zero!=0")
	}
	if len(diffs) > 0 {
		return outcome{kind: "mismatch-reg", detail: strings.Join(diffs, "; "), cycles: cycles}
	}
	for i := range ref.Mem {
		if ctx.Memory[i] != ref.Mem[i] {
			return outcome{kind: "mismatch-mem", detail: fmt.Sprintf("mem[%d] got %d want %d", i, ctx.Memory[i], ref.Mem[i]), cycles: cycles}
		}
	}
	return outcome{kind: "ok", cycles: cycles}
}

// ---------- generators

type gen struct {
	r       *rand.Rand
	class   string
	neg     bool
	regs    []int // usable registers
	memSize int
	prologue bool
	noret bool
	serial bool
	nodead bool
}

func (g *gen) reg() int { return g.regs[g.r.Intn(len(g.regs))] }
func (g *gen) val() int32 {
	switch g.r.Intn(6) {
	case 0:
		return 0
	case 1:
		return int32(g.r.Intn(8))
	case 2:
		if g.neg {
			return -int32(g.r.Intn(100)) - 1
		}
		return int32(g.r.Intn(100))
	case 3:
		if g.neg {
			return int32(g.r.Uint32())
		}
		return int32(g.r.Intn(1 << 20))
	default:
		return int32(g.r.Intn(1000))
	}
}

var alu3 = []string{"add", "sub", "and", "or", "xor", "mul", "slt"}
var aluI = []string{"addi", "andi", "ori", "xori", "slti"}

func (g *gen) alu() Ins {
	switch g.r.Intn(10) {
	case 0, 1, 2, 3:
		return mk3(alu3[g.r.Intn(len(alu3))], g.reg(), g.reg(), g.reg())
	case 4, 5, 6:
		return mkI(aluI[g.r.Intn(len(aluI))], g.reg(), g.reg(), g.val())
	case 7:
		return mkLi(g.reg(), g.val())
	case 8:
		return mkMv(g.reg(), g.reg())
	default:
		return mkNop()
	}
}

// memory op with absolute address via zero register base or via a base register known to hold 0..: we use zero base with offset (any int32 imm accepted by parser)
func (g *gen) memop(aligned64 bool, loadsOnly, storesOnly bool) Ins {
	sz := []int32{1, 2, 4}[g.r.Intn(3)]
	var a int32
	if aligned64 {
		// addresses such that first touch per line is at line base: handled by caller; here just pick aligned addr
		a = int32(g.r.Intn(g.memSize/4)) * 4
	} else {
		a = int32(g.r.Intn(g.memSize/int(sz))) * sz
	}
	isLoad := g.r.Intn(2) == 0
	if loadsOnly {
		isLoad = true
	}
	if storesOnly {
		isLoad = false
	}
	if isLoad {
		op := map[int32]string{1: "lb", 2: "lh", 4: "lw"}[sz]
		if op == "lh" { // lh has known ISA issues; avoid in clean classes
			op = "lw"
			a = a &^ 3
		}
		return mkLoad(op, g.reg(), a, 0)
	}
	op := map[int32]string{1: "sb", 2: "sh", 4: "sw"}[sz]
	return mkStore(op, g.reg(), a, 0)
}

func (g *gen) program(n int) *Prog {
	p := &Prog{Labels: map[string]int32{}}
	lbl := 0
	var patches []int
	live := map[int]bool{}
	reads := func(in Ins) []int {
		switch in.Op {
		case "add", "sub", "and", "or", "xor", "mul", "slt", "sltu", "sll", "srl", "sra", "div", "rem":
			return []int{in.Rs1, in.Rs2}
		case "addi", "andi", "ori", "xori", "slti", "slli", "srli", "srai", "mv", "lw", "lh", "lb", "beqz", "bnez", "jalr":
			return []int{in.Rs1}
		case "sw", "sh", "sb", "beq", "bne", "blt", "bge", "ble", "bltu", "bgeu":
			return []int{in.Rs1, in.Rs2}
		}
		return nil
	}
	writes := func(in Ins) int {
		switch in.Op {
		case "sw", "sh", "sb", "beq", "bne", "blt", "bge", "ble", "bltu", "bgeu", "beqz", "bnez", "j", "nop", "ret":
			return 0
		}
		return in.Rd
	}
	var emit func(in Ins)
	emit = func(in Ins) {
		if g.nodead {
			if w := writes(in); w != 0 && live[w] {
				isReader := false
				for _, r := range reads(in) {
					if r == w {
						isReader = true
					}
				}
				if !isReader {
					// consume first
					c := mk3("add", w, w, w)
					p.Ins = append(p.Ins, c)
					delete(live, w)
				}
			}
			if in.Op == "ret" {
				for w := range live {
					p.Ins = append(p.Ins, mk3("add", w, w, w))
				}
				live = map[int]bool{}
			}
			for _, r := range reads(in) {
				delete(live, r)
			}
			if in.Op == "lw" || in.Op == "lh" || in.Op == "lb" {
				if in.Rd != 0 {
					live[in.Rd] = true
				}
			}
		}
		p.Ins = append(p.Ins, in)
	}
	newLabel := func() string { lbl++; return fmt.Sprintf("L%d", lbl) }
	if g.prologue {
		for a := 0; a < g.memSize; a += 64 {
			emit(mkLoad("lb", 31, int32(a), 0))
			if g.serial {
				emit(mk3("add", 31, 31, 31))
			}
		}
		n += len(p.Ins)
	}
	for len(p.Ins) < n {
		switch g.class {
		case "alu":
			emit(g.alu())
		case "mem":
			if g.r.Intn(3) == 0 {
				emit(g.memop(false, false, false))
			} else {
				emit(g.alu())
			}
		case "memload":
			if g.r.Intn(3) == 0 {
				emit(g.memop(false, true, false))
			} else {
				emit(g.alu())
			}
		case "memstore":
			if g.r.Intn(3) == 0 {
				emit(g.memop(false, false, true))
			} else {
				emit(g.alu())
			}
		case "branch":
			if g.r.Intn(4) == 0 {
				// forward branch over k instructions
				k := 1 + g.r.Intn(3)
				l := newLabel()
				switch g.r.Intn(8) {
				case 0:
					emit(mkBr2("beq", g.reg(), g.reg(), l))
				case 1:
					emit(mkBr2("bne", g.reg(), g.reg(), l))
				case 2:
					emit(mkBr2("blt", g.reg(), g.reg(), l))
				case 3:
					emit(mkBr2("bge", g.reg(), g.reg(), l))
				case 4:
					emit(mkBr2("ble", g.reg(), g.reg(), l))
				case 5:
					emit(mkBr1("beqz", g.reg(), l))
				case 6:
					emit(mkBr1("bnez", g.reg(), l))
				case 7:
					emit(mkJ(l))
				}
				for i := 0; i < k; i++ {
					emit(g.alu())
				}
				p.Labels[l] = int32(len(p.Ins) * 4)
			} else {
				emit(g.alu())
			}
		case "shadow":
			if g.r.Intn(4) == 0 {
				k := 1 + g.r.Intn(4)
				l := newLabel()
				switch g.r.Intn(4) {
				case 0:
					emit(mkBr2("beq", g.reg(), g.reg(), l))
				case 1:
					emit(mkBr2("bge", g.reg(), g.reg(), l))
				case 2:
					emit(mkBr1("beqz", g.reg(), l))
				case 3:
					emit(mkJ(l))
				}
				for i := 0; i < k; i++ {
					switch g.r.Intn(3) {
					case 0:
						emit(g.memop(false, false, true))
					case 1:
						emit(g.memop(false, true, false))
					default:
						emit(g.alu())
					}
				}
				p.Labels[l] = int32(len(p.Ins) * 4)
			} else {
				emit(g.alu())
			}
		case "jal":
			if g.r.Intn(4) == 0 {
				k := 1 + g.r.Intn(3)
				l := newLabel()
				rd := []int{0, 1, 5, 6}[g.r.Intn(4)]
				if g.r.Intn(3) == 0 {
					// jalr via absolute immediate, patched later
					idx := len(p.Ins)
					emit(Ins{Op: "jalr", Rd: rd, Rs1: 0, Label: l})
					patches = append(patches, idx)
				} else {
					emit(mkJal(rd, l))
				}
				for i := 0; i < k; i++ {
					emit(g.alu())
				}
				p.Labels[l] = int32(len(p.Ins) * 4)
			} else {
				emit(g.alu())
			}
		case "walk":
			if g.r.Intn(5) == 0 {
				// walk: for (i=n; i!=0; i--) { op at base; base += stride }
				cnt, base := 27, 26
				stride := []int32{4, 8, 64, 68, 128, 256}[g.r.Intn(6)]
				iters := 2 + g.r.Intn(40)
				start := int32(g.r.Intn(16)) * 4
				for int(start)+iters*int(stride)+4 > g.memSize {
					iters /= 2
				}
				if iters < 1 {
					iters = 1
				}
				emit(mkLi(cnt, int32(iters)))
				emit(mkLi(base, start))
				l := newLabel()
				p.Labels[l] = int32(len(p.Ins) * 4)
				r1 := g.reg()
				switch g.r.Intn(3) {
				case 0:
					emit(mkLoad("lw", r1, 0, base))
					emit(mk3("add", g.reg(), r1, g.reg()))
				case 1:
					emit(mkStore("sw", g.reg(), 0, base))
				case 2:
					emit(mkLoad("lw", r1, 0, base))
					emit(mkI("addi", r1, r1, 1))
					emit(mkStore("sw", r1, 0, base))
				}
				emit(mkI("addi", base, base, stride))
				emit(mkI("addi", cnt, cnt, -1))
				emit(mkBr1("bnez", cnt, l))
			} else {
				emit(g.alu())
			}
		case "loop":
			if g.r.Intn(6) == 0 {
				// counted loop using a dedicated counter register s11 (27)
				cnt := 27
				iters := 1 + g.r.Intn(4)
				emit(mkLi(cnt, int32(iters)))
				l := newLabel()
				p.Labels[l] = int32(len(p.Ins) * 4)
				k := 1 + g.r.Intn(4)
				for i := 0; i < k; i++ {
					emit(g.alu())
				}
				emit(mkI("addi", cnt, cnt, -1))
				emit(mkBr1("bnez", cnt, l))
			} else {
				emit(g.alu())
			}
		default:
			panic(g.class)
		}
	}
	for _, idx := range patches {
		in := p.Ins[idx]
		t := p.Labels[in.Label]
		in.Imm = t
		in.Text = fmt.Sprintf("jalr %s, zero, %d", R(in.Rd), t)
		p.Ins[idx] = in
	}
	endLabel := false
	for _, pc := range p.Labels {
		if pc == int32(len(p.Ins)*4) {
			endLabel = true
		}
	}
	if (!g.noret && g.r.Intn(2) == 0) || endLabel {
		emit(mkRet())
	}
	return p
}

var msiCheck bool

func main() {
	flag.BoolVar(&msiCheck, "msi", false, "")
	class := flag.String("class", "alu", "")
	n := flag.Int("n", 200, "cases")
	size := flag.Int("size", 12, "instructions")
	seed := flag.Int64("seed", 1, "")
	neg := flag.Bool("neg", false, "")
	nregs := flag.Int("nregs", 5, "")
	mem := flag.Int("mem", 256, "")
	pars := flag.String("pars", "1,2,3,4", "")
	show := flag.Int("show", 1, "examples per signature")
	only := flag.String("only", "", "variant filter")
	zeroInit := flag.Bool("zeroinit", false, "zero initial regs")
	prologue := flag.Bool("prologue", false, "")
	noret := flag.Bool("noret", false, "")
	serial := flag.Bool("serial", false, "")
	nodead := flag.Bool("nodead", false, "")
	repeat := flag.Int("repeat", 0, "")
	flag.Parse()
	var parList []int
	for _, s := range strings.Split(*pars, ",") {
		var x int
		fmt.Sscan(s, &x)
		parList = append(parList, x)
	}
	r := rand.New(rand.NewSource(*seed))
	allRegs := []int{5, 6, 7, 10, 11, 12, 28, 29, 8, 9}
	g := &gen{r: r, class: *class, neg: *neg, regs: allRegs[:*nregs], memSize: *mem, prologue: *prologue, noret: *noret, serial: *serial, nodead: *nodead}
	type key struct{ v, kind string }
	counts := map[key]int{}
	examples := map[key][]string{}
	total := map[string]int{}
	for c := 0; c < *n; c++ {
		p := g.program(*size)
		var reg [32]int32
		if !*zeroInit {
			for _, x := range g.regs {
				reg[x] = g.val()
			}
		}
		memInit := make([]int8, *mem)
		for i := range memInit {
			if *neg {
				memInit[i] = int8(r.Intn(256))
			} else {
				memInit[i] = int8(r.Intn(100))
			}
		}
		ref, err := runRef(p, reg, memInit, 5000)
		if err != nil {
			fmt.Println("ref err", err)
			continue
		}
		text := p.Text()
		mvp1Cycles := 0
		for _, v := range variants {
			if *only != "" && !strings.Contains(v.name, *only) {
				continue
			}
			ps := []int{1}
			if v.par {
				ps = parList
			}
			for _, par := range ps {
				name := v.name
				if v.par {
					name = fmt.Sprintf("%s/p%d", v.name, par)
				}
				o := runVariant(v, par, text, reg, memInit, ref, int64(ref.Steps)*3000+20000)
				for rep := 0; rep < *repeat; rep++ {
					o2 := runVariant(v, par, text, reg, memInit, ref, int64(ref.Steps)*3000+20000)
					if o2.kind != o.kind || o2.detail != o.detail || o2.cycles != o.cycles {
						o = outcome{kind: "NONDET", detail: fmt.Sprintf("%v vs %v", o, o2)}
						break
					}
				}
				if v.name == "mvp1" && o.kind == "ok" {
					want := 0
					for _, pc := range ref.Trace {
						in := p.Ins[pc/4]
						want += 309 + 1
						switch in.Op {
						case "lw", "lh", "lb":
							want += 309 + 50 + 1
						case "sw", "sh", "sb":
							want += 1 + 309
						case "ret":
							want += 1
						case "beq", "bne", "blt", "bge", "ble", "bltu", "bgeu", "beqz", "bnez", "j", "nop":
							want += 1
						default:
							want += 1 + 1
						}
					}
					if want != o.cycles {
						o = outcome{kind: "cycle-model", detail: fmt.Sprintf("got %d want %d", o.cycles, want)}
					}
					mvp1Cycles = o.cycles
				}
				if v.name == "mvp2" && o.kind == "ok" && o.cycles > mvp1Cycles {
					o = outcome{kind: "mvp2-slower", detail: fmt.Sprintf("%d > %d", o.cycles, mvp1Cycles)}
				}
				k := key{name, o.kind}
				counts[k]++
				total[name]++
				if o.kind != "ok" && len(examples[k]) < *show {
					examples[k] = append(examples[k], fmt.Sprintf("--- %s %s: %s\nregs=%v\n%s", name, o.kind, o.detail, reg, text))
				}
			}
		}
	}
	var keys []key
	for k := range counts {
		keys = append(keys, k)
	}
	sort.Slice(keys, func(i, j int) bool {
		if keys[i].v != keys[j].v {
			return keys[i].v < keys[j].v
		}
		return keys[i].kind < keys[j].kind
	})
	for _, k := range keys {
		fmt.Printf("%-12s %-14s %d/%d\n", k.v, k.kind, counts[k], total[k.v])
	}
	if *show > 0 {
		for _, k := range keys {
			for _, e := range examples[k] {
				fmt.Println(e)
			}
		}
	}
	_ = os.Stdout
}
