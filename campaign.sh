#!/bin/sh
# development aid: campaign.sh TEST ONLY CHECKS SEED0 NSEEDS [extra env...]
export GOFLAGS=-mod=mod GOPROXY=off GOSUMDB=off GOTOOLCHAIN=local
cd /verif/harness && rm -rf checks/testdata && go test -c -tags verif -o /tmp/camp.test ./checks || exit 2
rm -rf /tmp/camp; mkdir -p /tmp/camp
i=0
while [ $i -lt $5 ]; do
  s=$(($4 + $i))
  ( mkdir -p /tmp/camp/w$s; cd /tmp/camp/w$s; VERIF_OUT=/tmp/camp/o$s VERIF_ONLY="$2" /tmp/camp.test -test.run "^$1\$" -test.timeout 0 -rapid.checks=$3 -rapid.seed=$s -rapid.nofailfile > /tmp/camp/log$s.txt 2>&1; echo "seed $s exit $?" >> /tmp/camp/done.txt ) &
  i=$(($i + 1))
  if [ $(($i % 16)) -eq 0 ]; then wait; fi
done
wait
cat /tmp/camp/done.txt | sort | awk '{print $4}' | sort | uniq -c
for f in /tmp/camp/log*.txt; do if grep -q FAIL $f; then echo "== $f"; grep -v 'rapid\] draw' $f | awk '/Failed test output/{exit} {print}' | head -${6:-30}; fi; done
