#!/usr/bin/env python3
"""Regenerates MANIFEST.json from the table below (kept as code so that the
manifest stays valid and consistent while checks are added)."""
import json, subprocess
HOOK_COMMITS = subprocess.run(["git","-C","/repo","log","--format=%H %s"],capture_output=True,text=True).stdout.splitlines()
hooks = [l.split()[0] for l in HOOK_COMMITS if l.split(' ',1)[1].startswith("verif hooks")]
CHECKS = {
 "C02": dict(level="exploration", ref="4 C02",
   text="Bounded-exhaustive over the boundary lattice (45 mnemonics x 1600 operand pairs x 11 register/alias patterns x 2 context kinds) plus millions of random operand/register/immediate/pc draws, each compared with two independently written oracles. Instruction semantics are pure functions of a few 32-bit operands, so lattice-exhaustive + random search against a reference is the natural decision procedure; 2^64 operand pairs cannot be enumerated, hence exploration.",
   note="Trusted: the two oracles (ref.ALU and the 64-bit closed forms) as a transcription of RV32IM, cross-checked against each other on every case; div/rem by zero excluded (C07).",
   technique="bounded-exhaustive lattice + rapid random differential testing against two independent RV32IM oracles"),
 "C11": dict(level="exploration", ref="4 C11",
   text="Totality of risc.Parse on arbitrary bytes, alphabet strings and grammar-directed mutations of valid programs (a panic is a violation), with every accepted text re-judged by an independent line grammar and per-line execution probes; generated programs under drawn formatting must be accepted, decode to their AST and be invariant under formatting (metamorphic). Native coverage-guided fuzzing of the same oracle in the thorough tier. The input space (all strings) is infinite, so this is exploration.",
   note="Trusted: the independent line grammar and decoder in c11_test.go, the reference step function used by the probes. Accepted texts containing a line outside the oracle's grammar are judged for totality only (counted as outcome:accepted-ambiguous).",
   technique="rapid grammar-based generation + mutation fuzzing with an independent line-grammar oracle and a metamorphic formatting relation; go native fuzzing in thorough"),
 "C16": dict(level="exploration", ref="4 C16",
   text="Quick: boundary lattice of byte values enumerated completely plus ~2M random patterns; thorough: every one of the 2^32 patterns enumerated in both directions (job 'exhaustive', reported with exhaustive:true in its job entry) — for a pure function of 32 bits complete enumeration is the strongest thing generated search can give and it is affordable.",
   note="Trusted: encoding/binary as the definition of little-endian; the Go compiler. The store/load sentence is checked through sw/lw Run on every quick pattern and on a 1/4096 stride of the exhaustive sweep.",
   technique="bounded-exhaustive enumeration + rapid random patterns against encoding/binary (round-trip both ways)"),
}
ALL = ["C%02d"%i for i in range(1,17)]
m = {
 "version": 1,
 "setup_cmd": "sh /verif/setup.sh",
 "hooks": {"guard": "verif", "enable": "go build tag: the harness compiles /repo (replace directive) with -tags verif",
           "baseline_off_cmd": "cd /repo && go test -mod=mod -json -vet=off -count=1 -timeout 25m ./...",
           "source_commits": hooks, "add_only": True},
 "engines": [{"name":"harness","path":"/verif/harness","serves_properties":sorted(CHECKS),"kind_free_text":"Go module: reference interpreter, generators (pgregory.net/rapid v1.3.0), adapters for the 12 variants, unit-level models, driver cmd/check"}],
 "checks": [], "not_applicable": [],
 "notes": "All checks: bin/check <id> quick|thorough; exit 0 held / 1 VIOLATION / 2 inconclusive (infrastructure). VERIF_SEED selects the PRNG values of every shard.",
}
for pid in ALL:
    if pid in CHECKS:
        c = CHECKS[pid]
        m["checks"].append({"property_id": pid, "quick_cmd": "/verif/bin/check %s quick"%pid, "thorough_cmd": "/verif/bin/check %s thorough"%pid,
          "evidence_file": "/verif/evidence/%s.json"%pid, "replay_cmd_template": "/verif/bin/check %s --replay {path}"%pid, "engine":"harness",
          "level_claimed": {"category": c["level"], "text": c["text"], "design_ref": "DESIGN.md section "+c["ref"]}, "level_note": c["note"], "technique": c["technique"]})
    else:
        m["not_applicable"].append({"property_id": pid, "reason": "check not built yet (work in progress; the technique applies, see DESIGN.md section 4)"})
json.dump(m, open("/verif/MANIFEST.json","w"), indent=1)
print("checks:", [c["property_id"] for c in m["checks"]])
