#!/usr/bin/env python3
"""Regenerates MANIFEST.json from the table below (kept as code so that the
manifest stays valid and consistent while checks are added)."""
import json, subprocess
HOOK_COMMITS = subprocess.run(["git","-C","/repo","log","--format=%H %s"],capture_output=True,text=True).stdout.splitlines()
hooks = [l.split()[0] for l in HOOK_COMMITS if l.split(' ',1)[1].startswith("verif hooks")]
CHECKS = {
 "C16": dict(level="exploration", ref="4 C16",
   text="Quick: boundary lattice of byte values enumerated completely plus ~2M random patterns; thorough: every one of the 2^32 patterns enumerated in both directions (job 'exhaustive', reported with exhaustive:true in its job entry) — for a pure function of 32 bits complete enumeration is the strongest thing generated search can give and it is affordable.",
   note="Trusted: encoding/binary as the definition of little-endian; the Go compiler. The store/load sentence is checked through sw/lw Run on every quick pattern and on a 1/4096 stride of the exhaustive sweep.",
   technique="bounded-exhaustive enumeration + rapid random patterns against encoding/binary (round-trip both ways)"),
}
ALL = ["C%02d"%i for i in range(1,17)]
m = {
 "version": 1,
 "setup_cmd": "sh /verif/setup.sh",
 "hooks": {"guard": "verif", "enable": "go build tag: the harness compiles /repo (replace directive) with -tags verif",
           "baseline_off_cmd": "cd /repo && go test -mod=mod -json -vet=off -count=1 -timeout 25m ./...",
           "source_commits": hooks, "add_only": True},
 "engines": [{"name":"harness","path":"/verif/harness","serves_properties":sorted(CHECKS),"kind_free_text":"Go module: reference interpreter, generators (pgregory.net/rapid v1.3.0), adapters for the 12 variants, unit-level models, driver cmd/check"}],
 "checks": [], "not_applicable": [],
 "notes": "All checks: bin/check <id> quick|thorough; exit 0 held / 1 VIOLATION / 2 inconclusive (infrastructure). VERIF_SEED selects the PRNG values of every shard.",
}
for pid in ALL:
    if pid in CHECKS:
        c = CHECKS[pid]
        m["checks"].append({"property_id": pid, "quick_cmd": "/verif/bin/check %s quick"%pid, "thorough_cmd": "/verif/bin/check %s thorough"%pid,
          "evidence_file": "/verif/evidence/%s.json"%pid, "replay_cmd_template": "/verif/bin/check %s --replay {path}"%pid, "engine":"harness",
          "level_claimed": {"category": c["level"], "text": c["text"], "design_ref": "DESIGN.md section "+c["ref"]}, "level_note": c["note"], "technique": c["technique"]})
    else:
        m["not_applicable"].append({"property_id": pid, "reason": "check not built yet (work in progress; the technique applies, see DESIGN.md section 4)"})
json.dump(m, open("/verif/MANIFEST.json","w"), indent=1)
print("checks:", [c["property_id"] for c in m["checks"]])
