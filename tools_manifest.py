#!/usr/bin/env python3
"""Regenerates MANIFEST.json from the table below (kept as code so that the
manifest stays valid and consistent while checks are added)."""
import json, subprocess
HOOK_COMMITS = subprocess.run(["git","-C","/repo","log","--format=%H %s"],capture_output=True,text=True).stdout.splitlines()
hooks = [l.split()[0] for l in HOOK_COMMITS if l.split(' ',1)[1].startswith("verif hooks")]
PROC_NOTE = "Trusted: the reference interpreter (harness/ref, cross-checked per instruction by C02), the comparison code and the known-finding triggers (predicates on the input; a case matching an active trigger is not judged on the finding's configurations and is counted). Hangs are detected by a budget of simulated loop iterations through the verif build-tag hook, never by wall-clock."
CHECKS = {
 "C02": dict(level="exploration", ref="4 C02",
   text="Bounded-exhaustive over the boundary lattice (45 mnemonics x 1600 operand pairs x 11 register/alias patterns x 2 context kinds) plus millions of random operand/register/immediate/pc draws, each compared with two independently written oracles. Instruction semantics are pure functions of a few 32-bit operands, so lattice-exhaustive + random search against a reference is the natural decision procedure; 2^64 operand pairs cannot be enumerated, hence exploration.",
   note="Trusted: the two oracles (ref.ALU and the 64-bit closed forms) as a transcription of RV32IM, cross-checked against each other on every case; div/rem by zero excluded (C07).",
   technique="bounded-exhaustive lattice + rapid random differential testing against two independent RV32IM oracles"),
 "C11": dict(level="exploration", ref="4 C11",
   text="Totality of risc.Parse on arbitrary bytes, alphabet strings and grammar-directed mutations of valid programs (a panic is a violation), with every accepted text re-judged by an independent line grammar and per-line execution probes; generated programs under drawn formatting must be accepted, decode to their AST and be invariant under formatting (metamorphic). Native coverage-guided fuzzing of the same oracle in the thorough tier. The input space (all strings) is infinite, so this is exploration.",
   note="Trusted: the independent line grammar and decoder in c11_test.go, the reference step function used by the probes. Accepted texts containing a line outside the oracle's grammar are judged for totality only (counted as outcome:accepted-ambiguous).",
   technique="rapid grammar-based generation + mutation fuzzing with an independent line-grammar oracle and a metamorphic formatting relation; go native fuzzing in thorough"),
 "C16": dict(level="exploration", ref="4 C16",
   text="Quick: boundary lattice of byte values enumerated completely plus ~2M random patterns; thorough: every one of the 2^32 patterns enumerated in both directions (job 'exhaustive', reported with exhaustive:true in its job entry) — for a pure function of 32 bits complete enumeration is the strongest thing generated search can give and it is affordable.",
   note="Trusted: encoding/binary as the definition of little-endian; the Go compiler. The store/load sentence is checked through sw/lw Run on every quick pattern and on a 1/4096 stride of the exhaustive sweep.",
   technique="bounded-exhaustive enumeration + rapid random patterns against encoding/binary (round-trip both ways)"),

 "C01": dict(level="exploration", ref="4 C01",
   text="Differential testing of every processor configuration (12 variants x parallelism 1..4 = 33) against an independent sequential reference on programs built concolically from several profiles (register-only, memory, hostile branch shadows, strided walks), with shrinking to minimal programs. The quantifier ranges over all programs x states x configurations, which only sampling can reach; the structural defects of the unchanged tree are recorded as known findings F01-F13 and excluded by input predicates so that the search continues behind them.",
   note=PROC_NOTE, technique="rapid (concolic program generator) differential testing against a reference interpreter, all 33 configurations"),
 "C03": dict(level="exploration", ref="4 C03",
   text="Differential testing on programs whose taken branches and jumps skip hostile shadows (register writes, stores, wild loads, divisions by zero, jumps with link), with branch operands made late by loads so that the shadow progresses for up to ~300 cycles; a reference re-run with the transfer forced to fall through certifies that the shadow would have been visible. Exploration: the space of programs and timings is unbounded.",
   note=PROC_NOTE, technique="rapid differential testing with hostile-shadow generator and a forced-fall-through metamorphic non-triviality test"),
 "C04": dict(level="exploration", ref="4 C04",
   text="Differential testing on short register-pressure programs (2-4 registers, chains, WAW/WAR pairs, load producers, chained forwards), each configuration run three times in one process: results equal to the reference and identical cycle counts (map-iteration order among forwarding candidates shows as a difference between repetitions). Exploration over dispatch interleavings via programs.",
   note=PROC_NOTE, technique="rapid differential testing with dependence-dense generator, repeated runs per configuration"),
 "C05": dict(level="exploration", ref="4 C05",
   text="Differential testing of registers and of the complete memory image after Run returns, on load/store programs over memories larger than every cache (random spread accesses, strided walks with checksums, disjoint-halves programs), on the 29 configurations with a data cache. Exploration: access patterns and eviction sequences are unbounded; an ideal-LRU replay over the reference trace measures how many cases really write, evict and re-read a line.",
   note=PROC_NOTE, technique="rapid differential testing (registers + full memory) with cache-evicting generators"),
 "C07": dict(level="exploration", ref="4 C07",
   text="Outcome classification under a deterministic budget of simulated loop iterations (16 x (instructions+64) x memory latency): well-formed terminating programs must return ok (a recovered Go panic, an error or a budget overrun is a violation); programs that reach a defined error (division by zero, undefined label) must return an error value. The statement is a bounded-liveness one ('within a fixed multiple'), which is what makes it decidable by generated search.",
   note=PROC_NOTE, technique="rapid generation + hang/panic/error outcome classification with a tick-budget hook"),
 "C09": dict(level="exploration", ref="4 C09",
   text="Differential testing on programs whose last instructions before the exit point are controlled (loads missing every cache, stores to untouched lines, back-to-back stores, dependent chains, results with no later reader) and whose exit is ret, fall-through or a branch to a final ret, on the 30 pipelined configurations.",
   note=PROC_NOTE, technique="rapid differential testing with controlled-tail generator"),
 "C10": dict(level="exploration", ref="4 C10",
   text="Differential testing on programs made of conflicting load/store pairs (same byte/word/line, distance 1..12, independent address registers, hit/miss, optionally separated by a taken branch) on the 30 pipelined configurations. At parallelism >= 2 undrained conflicts are the recorded finding F04, so the check judges adjacency at parallelism 1 and on MVP-4/5 and drained distances elsewhere; the evidence counts the split.",
   note=PROC_NOTE, technique="rapid differential testing with conflicting-pair generator"),
 "C13": dict(level="exploration", ref="4 C13",
   text="Model-based testing (rapid histories + bounded-exhaustive enumeration of all histories up to length 5/7 over 4 lines in a 2-line cache) of comp.LRUCache against a list model with full-state comparison after every step, and of the key-value LRU against a recency list. Histories are unbounded, hence exploration; the bounded-exhaustive job is complete within its bound.",
   note="Trusted: the list models in c13_test.go. Preconditions taken from the callers (insert non-resident aligned bases, write resident addresses).", technique="model-based testing: rapid operation sequences + bounded-exhaustive enumeration against a reference model"),
 "C14": dict(level="exploration", ref="4 C14",
   text="Model-based testing of SimpleBus (two-slot latch), BufferedBus (buffer/queue with an explicit cycle counter, capacities 1..4) and Queue: observers compared after every step, every delivery checked for exactly-once / order / latency, final drain; plus bounded-exhaustive enumeration of all action sequences up to length 7/9 for capacities 1..2.",
   note="Trusted: the bus models in c14_test.go and the usage protocol read off the pipelines (one Connect per cycle, add only while CanAdd).", technique="model-based testing: rapid operation sequences + bounded-exhaustive enumeration against reference models"),
 "C15": dict(level="exploration", ref="4 C15",
   text="Model-based testing of the speculative register state of risc.Context (transaction map and rename table, reads through a real instruction so that registerRead is exercised) and of comp.RAT against a ring model, including bounded-exhaustive enumeration of RAT histories up to length 5/6; out-of-order tag arrival is the recorded finding F14 (unit-level face of F03) and is excluded from the value claims only.",
   note="Trusted: the per-register write-list model and the ring model in c15_test.go.", technique="model-based testing: rapid histories + bounded-exhaustive enumeration against reference models"),

 "C06": dict(level="exploration", ref="4 C06",
   text="Invariant monitoring: (1) random load/store programs on MVP-7.0/7.1/8 x 1..4 cores with the five MSI invariants checked on a snapshot of every L1, the directory, the lock counters, the snoop commands and the L3 at every loop iteration of Run; (2) the same monitor on a pipeline-less rig of cache controllers + directory driven by random schedules and by a bounded-exhaustive enumeration of every schedule of up to 3 (quick) / 4 (thorough) requests from 2-3 cores on 1-2 lines, each with a flush of one or all cores at 15 critical cycles. The rig enumeration is complete within its bound; beyond it the claim is exploration.",
   note="Trusted: the snapshot hook (build tag verif, copies references only), the monitor's reading of 'transfer in progress', the rig stepping order copied from CPU.Run.", technique="invariant monitor over per-cycle snapshots: rapid programs + rapid and bounded-exhaustive request schedules on a controller rig"),
 "C08": dict(level="exploration", ref="4 C08",
   text="Metamorphic relations against the first run of a fresh machine: in-process repetition, runs after unrelated machines, concurrent machines in goroutines, re-use of a parsed program on the same and on another configuration, and a child process; outcome class, cycles, registers and memory must be identical. Go map-iteration orders and goroutine interleavings are sampled by repetition, not enumerated: exploration.",
   note="Trusted: sha256 digests of (class, cycles, registers, memory). No result-level exclusions: determinism is judged on wrong results too.", technique="rapid generation + metamorphic repetition/isolation relations (in-process, concurrent, re-used program, child process)"),
 "C12": dict(level="exploration", ref="4 C12",
   text="MVP-1's cycle count against the analytic latency model evaluated on the reference trace (exact equality), MVP-2 <= MVP-1, positivity and the issue-width lower bound on all configurations (on runs whose result equals the reference), and value-independence: two initial states differing only in data registers, with reference-certified identical paths and addresses, must take the same number of cycles on every configuration.",
   note="Trusted: the latency formula in c12_test.go (constants are read from common/latency and InstructionType.Cycles(), so a changed constant moves both sides; TestBenchmarks pins them), the control/data partition of the value-independence generator (certified per case by comparing the two reference traces).", technique="rapid generation + analytic cycle model on the reference trace + metamorphic value-independence relation"),
}
ALL = ["C%02d"%i for i in range(1,17)]
m = {
 "version": 1,
 "setup_cmd": "sh /verif/setup.sh",
 "hooks": {"guard": "verif", "enable": "go build tag: the harness compiles /repo (replace directive) with -tags verif",
           "baseline_off_cmd": "cd /repo && go test -mod=mod -json -vet=off -count=1 -timeout 25m ./...",
           "source_commits": hooks, "add_only": True},
 "engines": [{"name":"harness","path":"/verif/harness","serves_properties":sorted(CHECKS),"kind_free_text":"Go module: reference interpreter, generators (pgregory.net/rapid v1.3.0), adapters for the 12 variants, unit-level models, driver cmd/check"}],
 "checks": [], "not_applicable": [],
 "notes": "All checks: bin/check <id> quick|thorough; exit 0 held / 1 VIOLATION / 2 inconclusive (infrastructure). VERIF_SEED selects the PRNG values of every shard.",
}
for pid in ALL:
    if pid in CHECKS:
        c = CHECKS[pid]
        m["checks"].append({"property_id": pid, "quick_cmd": "/verif/bin/check %s quick"%pid, "thorough_cmd": "/verif/bin/check %s thorough"%pid,
          "evidence_file": "/verif/evidence/%s.json"%pid, "replay_cmd_template": "/verif/bin/check %s --replay {path}"%pid, "engine":"harness",
          "level_claimed": {"category": c["level"], "text": c["text"], "design_ref": "DESIGN.md section "+c["ref"]}, "level_note": c["note"], "technique": c["technique"]})
    else:
        m["not_applicable"].append({"property_id": pid, "reason": "check not built yet (work in progress; the technique applies, see DESIGN.md section 4)"})
json.dump(m, open("/verif/MANIFEST.json","w"), indent=1)
print("checks:", [c["property_id"] for c in m["checks"]])
