// Package hx is the test-side glue shared by all checks: it reads the shard
// parameters the driver passes through the environment, accumulates what the
// run actually covered, records failing cases as replay files and writes the
// shard result file.
package hx

import (
	"encoding/json"
	"fmt"
	"hash/fnv"
	"os"
	"path/filepath"
	"sort"
	"strconv"
	"sync"
	"testing"
	"time"

	"verif/evid"
	"verif/findings"
)

// Env of the running shard.
type Env struct {
	Tier    string
	Shard   int
	Shards  int
	Seed    uint64 // VERIF_SEED
	OutDir  string
	Root    string
	Count   int // job-specific size parameter (cases, depth, ...)
	Replay  string
	PropSel string
}

// GetEnv reads the shard parameters.
func GetEnv() Env {
	e := Env{Tier: os.Getenv("VERIF_TIER"), Root: findings.Root()}
	if e.Tier == "" {
		e.Tier = "quick"
	}
	e.Shard, _ = strconv.Atoi(os.Getenv("VERIF_SHARD"))
	e.Shards, _ = strconv.Atoi(os.Getenv("VERIF_SHARDS"))
	if e.Shards == 0 {
		e.Shards = 1
	}
	e.Seed, _ = strconv.ParseUint(os.Getenv("VERIF_SEED"), 10, 64)
	if e.Seed == 0 {
		e.Seed = 1
	}
	e.OutDir = os.Getenv("VERIF_OUT")
	if e.OutDir == "" {
		e.OutDir = filepath.Join(e.Root, "out", "adhoc")
	}
	e.Count, _ = strconv.Atoi(os.Getenv("VERIF_COUNT"))
	e.Replay = os.Getenv("VERIF_REPLAY")
	e.PropSel = os.Getenv("VERIF_PROP")
	return e
}

// H accumulates the coverage of one job in one shard.
type H struct {
	Env   Env
	t     *testing.T
	mu    sync.Mutex
	sh    evid.Shard
	nt    map[uint64]struct{}
	start time.Time
	fails int
	// best failing case so far (smallest size)
	bestSize int
	nSamples int
}

// Begin starts a job. The shard file is written by Done, which Begin registers
// as a test cleanup.
func Begin(t *testing.T, prop, job string) *H {
	e := GetEnv()
	if j := os.Getenv("VERIF_JOB"); j != "" {
		job = j // the driver's name for this run (one test can serve several jobs)
	}
	h := &H{Env: e, t: t, nt: map[uint64]struct{}{}, start: time.Now(), bestSize: -1}
	h.sh = evid.Shard{Property: prop, Job: job, ShardID: e.Shard, Seed: e.Seed,
		Classes: map[string]int64{}, Excluded: map[string]int64{}, PerConfig: map[string]int64{}}
	t.Cleanup(h.done)
	return h
}

// Hash is FNV-1a over the parts.
func Hash(parts ...any) uint64 {
	f := fnv.New64a()
	for _, p := range parts {
		fmt.Fprintf(f, "%v|", p)
	}
	return f.Sum64()
}

// Eval records one evaluation: its identity hash, whether it is non-trivial by
// the check's stated rule, and its classes.
func (h *H) Eval(hash uint64, nontrivial bool, classes ...string) {
	h.mu.Lock()
	defer h.mu.Unlock()
	h.sh.Evaluations++
	if nontrivial {
		h.nt[hash] = struct{}{}
	}
	for _, c := range classes {
		h.sh.Classes[c]++
	}
}

// Evals adds n evaluations without a hash (bulk enumeration).
func (h *H) Evals(n int64) {
	h.mu.Lock()
	h.sh.Evaluations += n
	h.mu.Unlock()
}

// Nontrivial marks a hash as a distinct non-trivial case.
func (h *H) Nontrivial(hash uint64) {
	h.mu.Lock()
	h.nt[hash] = struct{}{}
	h.mu.Unlock()
}

// NontrivialBulk adds n non-trivial cases that are distinct by construction
// (each value of an enumeration is visited once).
func (h *H) NontrivialBulk(n int64) {
	h.mu.Lock()
	h.sh.NontrivialBulk += n
	h.mu.Unlock()
}

// Class increments class counters.
func (h *H) Class(c string, n int64) {
	h.mu.Lock()
	h.sh.Classes[c] += n
	h.mu.Unlock()
}

// Config counts one judged run on a configuration.
func (h *H) Config(c string) {
	h.mu.Lock()
	h.sh.PerConfig[c]++
	h.mu.Unlock()
}

// Exclude counts a case that matched an active known-finding trigger.
func (h *H) Exclude(finding string) {
	h.mu.Lock()
	h.sh.Excluded[finding]++
	h.mu.Unlock()
}

// Skip counts a generated case that left the domain (not pass, not fail).
func (h *H) Skip() {
	h.mu.Lock()
	h.sh.Skipped++
	h.mu.Unlock()
}

// Note adds a free-text note to the evidence.
func (h *H) Note(format string, a ...any) {
	h.mu.Lock()
	if len(h.sh.Notes) < 50 {
		h.sh.Notes = append(h.sh.Notes, fmt.Sprintf(format, a...))
	}
	h.mu.Unlock()
}

// Known records a KNOWN-FINDING line.
func (h *H) Known(line string) {
	h.mu.Lock()
	h.sh.Known = append(h.sh.Known, line)
	h.mu.Unlock()
}

// Exhaustive marks the job as a complete enumeration of a finite space.
func (h *H) Exhaustive() {
	h.mu.Lock()
	h.sh.Exhaustive = true
	h.mu.Unlock()
}

// Sample keeps a few of the generated cases (the 1st, 2nd, 4th, 8th, ... up to
// six) so a reader can see what they look like.
func (h *H) Sample(v any) {
	h.mu.Lock()
	defer h.mu.Unlock()
	h.nSamples++
	n := h.nSamples
	if n&(n-1) != 0 || len(h.sh.Samples) >= 6 {
		return
	}
	b, err := json.Marshal(v)
	if err == nil {
		h.sh.Samples = append(h.sh.Samples, b)
	}
}

// SampleN returns how many samples have been offered (to avoid building
// expensive sample values needlessly).
func (h *H) WantSample() bool {
	h.mu.Lock()
	defer h.mu.Unlock()
	n := h.nSamples + 1
	return n&(n-1) == 0 && len(h.sh.Samples) < 6
}

// Fail records a failing case as a replay file. kind selects the replayer,
// size orders candidates (the smallest seen so far is kept, ties go to the
// latest, so after shrinking the file holds the minimal case).
func (h *H) Fail(kind string, c any, size int, msg string) string {
	h.mu.Lock()
	defer h.mu.Unlock()
	h.fails++
	path := filepath.Join(h.Env.OutDir, fmt.Sprintf("fail-%s-%s-s%d.json", h.sh.Property, h.sh.Job, h.Env.Shard))
	if h.bestSize >= 0 && size > h.bestSize {
		return path
	}
	h.bestSize = size
	raw, err := json.Marshal(c)
	if err != nil {
		raw = []byte(`"unserialisable"`)
	}
	rp := evid.Replay{Property: h.sh.Property, Kind: kind, Case: raw, Message: msg, Seed: h.Env.Seed}
	b, _ := json.MarshalIndent(rp, "", " ")
	_ = os.MkdirAll(h.Env.OutDir, 0o755)
	_ = os.WriteFile(path, b, 0o644)
	h.sh.Violations = []evid.Violation{{Replay: path, Message: msg}}
	return path
}

// AddViolation records an additional, separately filed violation (for jobs
// that continue after a failure, e.g. enumerations).
func (h *H) AddViolation(kind string, c any, tag string, msg string) string {
	h.mu.Lock()
	defer h.mu.Unlock()
	path := filepath.Join(h.Env.OutDir, fmt.Sprintf("fail-%s-%s-s%d-%s.json", h.sh.Property, h.sh.Job, h.Env.Shard, tag))
	raw, err := json.Marshal(c)
	if err != nil {
		raw = []byte(`"unserialisable"`)
	}
	rp := evid.Replay{Property: h.sh.Property, Kind: kind, Case: raw, Message: msg, Seed: h.Env.Seed}
	b, _ := json.MarshalIndent(rp, "", " ")
	_ = os.MkdirAll(h.Env.OutDir, 0o755)
	_ = os.WriteFile(path, b, 0o644)
	h.sh.Violations = append(h.sh.Violations, evid.Violation{Replay: path, Message: msg})
	return path
}

// Failed reports whether any failure was recorded.
func (h *H) Failed() bool {
	h.mu.Lock()
	defer h.mu.Unlock()
	return len(h.sh.Violations) > 0
}

func (h *H) done() {
	h.mu.Lock()
	defer h.mu.Unlock()
	h.sh.Nontrivial = make([]uint64, 0, len(h.nt))
	for k := range h.nt {
		h.sh.Nontrivial = append(h.sh.Nontrivial, k)
	}
	sort.Slice(h.sh.Nontrivial, func(i, j int) bool { return h.sh.Nontrivial[i] < h.sh.Nontrivial[j] })
	h.sh.WallS = time.Since(h.start).Seconds()
	// Completed means the job ran to its end; a failing test still completes.
	h.sh.Completed = true
	path := filepath.Join(h.Env.OutDir, fmt.Sprintf("shard-%s-%s-s%d.json", h.sh.Property, h.sh.Job, h.Env.Shard))
	if err := h.sh.Write(path); err != nil {
		h.t.Logf("cannot write shard file: %v", err)
	}
}

// Replayer re-judges a case from its JSON form: nil when the property holds on
// it, an error describing the violation otherwise.
type Replayer func(raw json.RawMessage) error

var replayers = map[string]Replayer{}

// Register installs the replayer of a case kind.
func Register(kind string, r Replayer) { replayers[kind] = r }

// ReplayFile re-judges a replay file. infra is non-nil when the file cannot be
// read or names an unknown kind.
func ReplayFile(path string) (verdict error, infra error) {
	rp, err := evid.ReadReplay(path)
	if err != nil {
		return nil, err
	}
	r, ok := replayers[rp.Kind]
	if !ok {
		return nil, fmt.Errorf("no replayer for kind %q", rp.Kind)
	}
	return r(rp.Case), nil
}
