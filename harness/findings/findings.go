// Package findings reads /verif/known-findings.txt. The file, not the code,
// decides which findings are active; it is never written at run time.
package findings

import (
	"bufio"
	"os"
	"path/filepath"
	"strings"
)

// Finding is one "finding:" line.
type Finding struct {
	ID         string
	Properties []string
	Configs    string
	Trigger    string
	Witnesses  []string // paths relative to the verif root
	Class      string   // "memory-value": the finding can only corrupt values obtained through loads and the final memory
	What       string
}

// Fixed is one "fixed:" line.
type Fixed struct {
	Property string
	Commit   string
	What     string
}

// File is the parsed known-findings file.
type File struct {
	Findings []Finding
	Fixed    []Fixed
}

// Root is the verification root directory (VERIF_ROOT, default /verif).
func Root() string {
	if r := os.Getenv("VERIF_ROOT"); r != "" {
		return r
	}
	return "/verif"
}

// Load parses the known-findings file; a missing file is an empty one.
func Load() (*File, error) {
	f := &File{}
	fh, err := os.Open(filepath.Join(Root(), "known-findings.txt"))
	if err != nil {
		if os.IsNotExist(err) {
			return f, nil
		}
		return nil, err
	}
	defer fh.Close()
	sc := bufio.NewScanner(fh)
	sc.Buffer(make([]byte, 1<<20), 1<<20)
	for sc.Scan() {
		line := strings.TrimSpace(sc.Text())
		switch {
		case strings.HasPrefix(line, "finding:"):
			kv, what := fields(strings.TrimPrefix(line, "finding:"))
			fd := Finding{ID: kv["id"], Configs: kv["configs"], Trigger: kv["trigger"], Class: kv["class"], What: what}
			if kv["property"] != "" {
				fd.Properties = strings.Split(kv["property"], ",")
			}
			if kv["witness"] != "" {
				fd.Witnesses = strings.Split(kv["witness"], ",")
			}
			f.Findings = append(f.Findings, fd)
		case strings.HasPrefix(line, "fixed:"):
			rest := strings.Fields(strings.TrimPrefix(line, "fixed:"))
			fx := Fixed{}
			if len(rest) > 0 {
				fx.Property = strings.TrimPrefix(rest[0], "property=")
			}
			if len(rest) > 1 {
				fx.Commit = rest[1]
			}
			if len(rest) > 2 {
				fx.What = strings.Join(rest[2:], " ")
			}
			f.Fixed = append(f.Fixed, fx)
		}
	}
	return f, sc.Err()
}

// fields splits "k=v k=v what=free text to the end".
func fields(s string) (map[string]string, string) {
	kv := map[string]string{}
	what := ""
	if i := strings.Index(s, "what="); i >= 0 {
		what = strings.TrimSpace(s[i+len("what="):])
		s = s[:i]
	}
	for _, tok := range strings.Fields(s) {
		if i := strings.IndexByte(tok, '='); i > 0 {
			kv[tok[:i]] = tok[i+1:]
		}
	}
	return kv, what
}

// ForProperty returns the findings that name the property.
func (f *File) ForProperty(prop string) []Finding {
	var out []Finding
	for _, fd := range f.Findings {
		for _, p := range fd.Properties {
			if p == prop {
				out = append(out, fd)
				break
			}
		}
	}
	return out
}

// Active reports whether a trigger name is named by some finding.
func (f *File) Active(trigger string) (Finding, bool) {
	for _, fd := range f.Findings {
		if fd.Trigger == trigger {
			return fd, true
		}
	}
	return Finding{}, false
}
