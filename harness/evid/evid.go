// Package evid defines the per-shard result files written by the check
// processes and merged by the driver into /verif/evidence/<id>.json.
package evid

import (
	"encoding/json"
	"os"
	"path/filepath"
)

// Violation is one failing case, already written as a replay file.
type Violation struct {
	Replay  string `json:"replay"`
	Message string `json:"message"`
}

// Shard is what one check process reports.
type Shard struct {
	Property    string   `json:"property"`
	Job         string   `json:"job"`
	ShardID     int      `json:"shard"`
	Seed        uint64   `json:"seed"`
	Evaluations int64    `json:"evaluations"`
	Nontrivial  []uint64 `json:"nontrivial_hashes"`
	// NontrivialBulk counts non-trivial cases that are distinct by
	// construction (enumerations), in addition to the hashed ones.
	NontrivialBulk int64             `json:"nontrivial_bulk,omitempty"`
	Classes        map[string]int64  `json:"classes,omitempty"`
	Excluded       map[string]int64  `json:"excluded,omitempty"`
	PerConfig      map[string]int64  `json:"per_config,omitempty"`
	Skipped        int64             `json:"skipped_invalid"`
	Samples        []json.RawMessage `json:"samples,omitempty"`
	Notes          []string          `json:"notes,omitempty"`
	Known          []string          `json:"known,omitempty"`
	Violations     []Violation       `json:"violations,omitempty"`
	Exhaustive     bool              `json:"exhaustive,omitempty"`
	WallS          float64           `json:"wall_s"`
	Completed      bool              `json:"completed"`
}

// Write stores the shard file atomically.
func (s *Shard) Write(path string) error {
	if err := os.MkdirAll(filepath.Dir(path), 0o755); err != nil {
		return err
	}
	b, err := json.Marshal(s)
	if err != nil {
		return err
	}
	tmp := path + ".tmp"
	if err := os.WriteFile(tmp, b, 0o644); err != nil {
		return err
	}
	return os.Rename(tmp, path)
}

// Read loads a shard file.
func Read(path string) (*Shard, error) {
	b, err := os.ReadFile(path)
	if err != nil {
		return nil, err
	}
	var s Shard
	if err := json.Unmarshal(b, &s); err != nil {
		return nil, err
	}
	return &s, nil
}

// Replay is the on-disk form of a reproducible case.
type Replay struct {
	Property string          `json:"property"`
	Kind     string          `json:"kind"`
	Case     json.RawMessage `json:"case"`
	Message  string          `json:"message,omitempty"`
	Seed     uint64          `json:"seed,omitempty"`
}

// ReadReplay loads a replay file.
func ReadReplay(path string) (*Replay, error) {
	b, err := os.ReadFile(path)
	if err != nil {
		return nil, err
	}
	var r Replay
	if err := json.Unmarshal(b, &r); err != nil {
		return nil, err
	}
	return &r, nil
}
