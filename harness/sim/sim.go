// Package sim runs the real majorana processors: one adapter per variant,
// outcome classification (ok / error / panic / budget) and comparison with the
// reference model.
package sim

import (
	"fmt"
	"runtime/debug"
	"strings"

	mvp1 "github.com/teivah/majorana/proc/mvp1"
	mvp2 "github.com/teivah/majorana/proc/mvp2"
	mvp3 "github.com/teivah/majorana/proc/mvp3"
	mvp4 "github.com/teivah/majorana/proc/mvp4"
	mvp5 "github.com/teivah/majorana/proc/mvp5"
	mvp6_0 "github.com/teivah/majorana/proc/mvp6-0"
	mvp6_1 "github.com/teivah/majorana/proc/mvp6-1"
	mvp6_2 "github.com/teivah/majorana/proc/mvp6-2"
	mvp6_3 "github.com/teivah/majorana/proc/mvp6-3"
	mvp7_0 "github.com/teivah/majorana/proc/mvp7-0"
	mvp7_1 "github.com/teivah/majorana/proc/mvp7-1"
	mvp8_0 "github.com/teivah/majorana/proc/mvp8-0"
	"github.com/teivah/majorana/proc/comp"
	"github.com/teivah/majorana/risc"

	"verif/ref"
)

// Snapshotter is offered by the coherent variants (hook, build tag verif).
type Snapshotter interface {
	VerifSnapshot() comp.VerifSnapshot
}

// Rig is the pipeline-less controller rig of a coherent variant (hook).
type Rig interface {
	Memory() []int8
	Snoop()
	Read(core int, addrs []int32, cycle int) ([]int8, bool)
	Write(core int, addrs []int32, data []int8, cycle int) bool
	Flush(core int)
	Quiescent() bool
	WriteBack()
	Snapshot() comp.VerifSnapshot
}

// NewRig builds the controller rig of a coherent variant.
func NewRig(variant string, cores, memBytes int) Rig {
	switch variant {
	case "mvp7-0":
		return mvp7_0.NewVerifRig(cores, memBytes)
	case "mvp7-1":
		return mvp7_1.NewVerifRig(cores, memBytes)
	case "mvp8-0":
		return mvp8_0.NewVerifRig(cores, memBytes)
	}
	panic("sim: no rig for " + variant)
}

// VM is what every variant offers.
type VM interface {
	Run(app risc.Application) (int, error)
	Context() *risc.Context
}

// Config is a processor configuration: variant and parallelism (EU = WU for
// MVP-6.x, cores for MVP-7.x/8; always 1 for the single-issue variants).
type Config struct {
	Variant string `json:"variant"`
	Par     int    `json:"par"`
}

func (c Config) String() string { return fmt.Sprintf("%s/p%d", c.Variant, c.Par) }

// Variants in order of introduction.
var Variants = []string{"mvp1", "mvp2", "mvp3", "mvp4", "mvp5", "mvp6-0", "mvp6-1", "mvp6-2", "mvp6-3", "mvp7-0", "mvp7-1", "mvp8-0"}

// IsMulti reports whether the variant takes a parallelism parameter.
func IsMulti(v string) bool {
	return strings.HasPrefix(v, "mvp6") || strings.HasPrefix(v, "mvp7") || strings.HasPrefix(v, "mvp8")
}

// IsPipelined reports MVP-4 and later.
func IsPipelined(v string) bool { return v != "mvp1" && v != "mvp2" && v != "mvp3" }

// HasDataCache reports MVP-3 and later.
func HasDataCache(v string) bool { return v != "mvp1" && v != "mvp2" }

// IsCoherent reports the MSI variants.
func IsCoherent(v string) bool { return strings.HasPrefix(v, "mvp7") || strings.HasPrefix(v, "mvp8") }

// AllConfigs returns the 33 configurations: 5 single-issue variants and
// 7 multi-issue variants at parallelism 1..4.
func AllConfigs() []Config {
	var cs []Config
	for _, v := range Variants {
		if !IsMulti(v) {
			cs = append(cs, Config{v, 1})
			continue
		}
		for p := 1; p <= 4; p++ {
			cs = append(cs, Config{v, p})
		}
	}
	return cs
}

// DebugLog turns the simulator's debug log on for the machines built by New
// (development aid).
var DebugLog bool

// New builds a fresh machine.
func New(c Config, memBytes int) VM {
	vm := newVM(c, memBytes)
	if DebugLog {
		vm.Context().Debug = true
	}
	return vm
}

func newVM(c Config, memBytes int) VM {
	p := c.Par
	switch c.Variant {
	case "mvp1":
		return mvp1.NewCPU(false, memBytes)
	case "mvp2":
		return mvp2.NewCPU(false, memBytes)
	case "mvp3":
		return mvp3.NewCPU(false, memBytes)
	case "mvp4":
		return mvp4.NewCPU(false, memBytes)
	case "mvp5":
		return mvp5.NewCPU(false, memBytes)
	case "mvp6-0":
		return mvp6_0.NewCPU(false, memBytes, p, p)
	case "mvp6-1":
		return mvp6_1.NewCPU(false, memBytes, p, p)
	case "mvp6-2":
		return mvp6_2.NewCPU(false, memBytes, p, p)
	case "mvp6-3":
		return mvp6_3.NewCPU(false, memBytes, p, p)
	case "mvp7-0":
		return mvp7_0.NewCPU(false, memBytes, p)
	case "mvp7-1":
		return mvp7_1.NewCPU(false, memBytes, p)
	case "mvp8-0":
		return mvp8_0.NewCPU(false, memBytes, p)
	}
	panic("sim: unknown variant " + c.Variant)
}

// Outcome kinds.
const (
	OK     = "ok"
	Error  = "error"
	Panic  = "panic"
	Budget = "budget"
	Parse  = "parse-error"
)

// Outcome of a run of the real code.
type Outcome struct {
	Kind   string
	Cycles int
	Reg    [32]int32
	Mem    []int8
	Err    string
	Stack  string
	Ticks  int64
}

// BudgetFor is the loop-iteration budget for a run whose reference execution
// takes steps instructions: K * (steps + 64) * MemoryAccess with K = 16
// (DESIGN.md 2.4). A count of simulated loop iterations, never wall-clock.
func BudgetFor(steps int) int64 {
	return 16 * int64(steps+64) * 309
}

// Run parses text, builds the machine, installs the initial state and runs it.
// onTick, when non-nil, is called on every loop iteration with the machine.
func Run(c Config, text string, init ref.State, budget int64, onTick func(vm VM, cycle int)) (out Outcome) {
	app, err := risc.Parse(text)
	if err != nil {
		return Outcome{Kind: Parse, Err: err.Error()}
	}
	return RunApp(c, app, init, budget, onTick)
}

// RunApp is Run for an already parsed application.
func RunApp(c Config, app risc.Application, init ref.State, budget int64, onTick func(vm VM, cycle int)) (out Outcome) {
	vm := New(c, len(init.Mem))
	ctx := vm.Context()
	copy(ctx.Memory, init.Mem)
	for i := 1; i < 32; i++ {
		if init.Reg[i] != 0 {
			ctx.Registers[risc.RegisterType(i)] = init.Reg[i]
		}
	}
	var tick func(int)
	if onTick != nil {
		tick = func(cycle int) { onTick(vm, cycle) }
	}
	ctx.VerifArm(budget, tick)
	defer func() {
		if r := recover(); r != nil {
			out.Ticks = ctx.VerifTicks()
			if _, ok := r.(risc.VerifBudgetExceeded); ok {
				out.Kind = Budget
				return
			}
			out.Kind = Panic
			out.Err = fmt.Sprint(r)
			st := string(debug.Stack())
			if len(st) > 3000 {
				st = st[:3000]
			}
			out.Stack = st
		}
	}()
	cycles, err := vm.Run(app)
	out.Ticks = ctx.VerifTicks()
	out.Cycles = cycles
	if err != nil {
		out.Kind = Error
		out.Err = err.Error()
		return out
	}
	out.Kind = OK
	for i := 0; i < 32; i++ {
		out.Reg[i] = ctx.Registers[risc.RegisterType(i)]
	}
	out.Mem = append([]int8(nil), ctx.Memory...)
	return out
}

// Diff compares an outcome with the reference result of a well-formed
// terminating program: "" when they agree, else a description.
func Diff(o Outcome, r ref.Result) string {
	switch o.Kind {
	case OK:
	case Error:
		return "run returned error: " + o.Err
	case Panic:
		return "run panicked: " + o.Err
	case Budget:
		return fmt.Sprintf("run exceeded the budget of loop iterations (%d)", o.Ticks)
	default:
		return o.Kind + ": " + o.Err
	}
	var ds []string
	for i := 0; i < 32; i++ {
		if o.Reg[i] != r.Reg[i] {
			ds = append(ds, fmt.Sprintf("%s got %d want %d", ref.RegNames[i], o.Reg[i], r.Reg[i]))
		}
	}
	if len(o.Mem) != len(r.Mem) {
		ds = append(ds, fmt.Sprintf("memory length got %d want %d", len(o.Mem), len(r.Mem)))
	} else {
		n := 0
		for i := range r.Mem {
			if o.Mem[i] != r.Mem[i] {
				if n < 4 {
					ds = append(ds, fmt.Sprintf("mem[%d] got %d want %d", i, o.Mem[i], r.Mem[i]))
				}
				n++
			}
		}
		if n > 4 {
			ds = append(ds, fmt.Sprintf("(%d memory bytes differ)", n))
		}
	}
	return strings.Join(ds, "; ")
}
