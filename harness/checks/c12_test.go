package checks

// C12 — cycle accounting follows the documented latency model.

import (
	"encoding/json"
	"fmt"
	"testing"

	"github.com/teivah/majorana/common/latency"
	"github.com/teivah/majorana/risc"
	"pgregory.net/rapid"

	"verif/gen"
	"verif/hx"
	"verif/ref"
	"verif/sim"
)

var cyclesOf = map[string]int{}

// execCycles is InstructionType.Cycles() of a mnemonic, read from the code
// under test (the formula is the oracle, not the constants).
func execCycles(in ref.Ins) int {
	if v, ok := cyclesOf[in.Op]; ok {
		return v
	}
	probe := in
	if probe.Label != "" {
		probe.Label = "L"
	}
	app, err := risc.Parse(probe.Text())
	if err != nil {
		panic(err)
	}
	v := app.Instructions[0].InstructionType().Cycles()
	cyclesOf[in.Op] = v
	return v
}

// mvp1Model is the documented latency model of the unpipelined MVP-1: per
// executed instruction fetch + decode + optional memory read + execute +
// write-back (register access for a register result, memory access for a
// store); ret counts up to and including execute.
func mvp1Model(p *ref.Prog, r *ref.Result) int {
	total := 0
	for _, s := range r.Trace {
		in := p.Ins[s.Idx]
		total += latency.MemoryAccess + 1 // fetch from memory, decode
		if in.IsLoad() {
			total += latency.MemoryAccess
		}
		total += execCycles(in)
		if in.Op == "ret" {
			break
		}
		switch {
		case in.IsStore():
			total += latency.MemoryAccess
		case in.Writes() >= 0:
			total += latency.RegisterAccess
		}
	}
	return total
}

type c12Case struct {
	Case  gen.Case   `json:"case"`
	Cfg   sim.Config `json:"cfg"`
	Check string     `json:"check"` // mvp1-exact, mvp2-not-slower, lower-bound, value-independence
	Regs2 [32]int32  `json:"regs2"` // second initial register file (value-independence)
}

// c12Judge judges one relation on one configuration.
func c12Judge(c c12Case) error {
	r, ok := refRun(&c.Case)
	if !ok {
		return fmt.Errorf("case outside the domain: %v", r.Err)
	}
	text := c.Case.Prog.Text()
	run := func(cfg sim.Config, init ref.State) sim.Outcome {
		return sim.Run(cfg, text, init, sim.BudgetFor(r.Steps), nil)
	}
	switch c.Check {
	case "mvp1-exact":
		out := run(sim.Config{Variant: "mvp1", Par: 1}, c.Case.Init())
		if out.Kind != sim.OK || sim.Diff(out, r) != "" {
			return nil // not an accounting question (C01)
		}
		if want := mvp1Model(&c.Case.Prog, &r); out.Cycles != want {
			return fmt.Errorf("mvp1: %d cycles, the latency model gives %d for the %d executed instructions", out.Cycles, want, r.Steps)
		}
	case "mvp2-not-slower":
		o1 := run(sim.Config{Variant: "mvp1", Par: 1}, c.Case.Init())
		o2 := run(sim.Config{Variant: "mvp2", Par: 1}, c.Case.Init())
		if o1.Kind != sim.OK || o2.Kind != sim.OK || sim.Diff(o1, r) != "" || sim.Diff(o2, r) != "" {
			return nil
		}
		if o2.Cycles > o1.Cycles {
			return fmt.Errorf("mvp2 takes %d cycles, mvp1 %d on the same run", o2.Cycles, o1.Cycles)
		}
	case "lower-bound":
		out := run(c.Cfg, c.Case.Init())
		if out.Kind != sim.OK || sim.Diff(out, r) != "" {
			return nil
		}
		width := 2
		if c.Cfg.Par > width {
			width = c.Cfg.Par
		}
		if out.Cycles <= 0 {
			return fmt.Errorf("%s: cycle count %d is not positive", c.Cfg, out.Cycles)
		}
		if min := (r.Steps + width - 1) / width; out.Cycles < min {
			return fmt.Errorf("%s: %d cycles for %d executed instructions at issue width %d", c.Cfg, out.Cycles, r.Steps, width)
		}
	case "value-independence":
		c2 := c.Case
		c2.Regs = c.Regs2
		r2, ok2 := refRun(&c2)
		if !ok2 || !sameShape(&r, &r2) {
			return fmt.Errorf("case outside the domain: the two states do not give the same path and addresses")
		}
		oa := run(c.Cfg, c.Case.Init())
		ob := run(c.Cfg, c2.Init())
		if oa.Kind != sim.OK || ob.Kind != sim.OK {
			return nil // termination is C07's business
		}
		if oa.Cycles != ob.Cycles {
			return fmt.Errorf("%s: %d cycles and %d cycles for two initial states that differ only in data registers (same executed path, same addresses)", c.Cfg, oa.Cycles, ob.Cycles)
		}
	}
	return nil
}

// sameShape: identical pc traces and identical effective addresses.
func sameShape(a, b *ref.Result) bool {
	if len(a.Trace) != len(b.Trace) || a.Exit != b.Exit {
		return false
	}
	for i := range a.Trace {
		x, y := a.Trace[i], b.Trace[i]
		// the executed path is the pc sequence: a branch whose target is the next
		// instruction leaves it unchanged whether it is taken or not
		if x.Pc != y.Pc || x.Addr != y.Addr {
			return false
		}
	}
	return true
}

func init() {
	hx.Register("c12table", func(raw json.RawMessage) error {
		return fmt.Errorf("re-run the check: the latency table is judged as a whole (TestC12Table)")
	})
	hx.Register("c12", func(raw json.RawMessage) error {
		var c c12Case
		if err := json.Unmarshal(raw, &c); err != nil {
			return err
		}
		return c12Judge(c)
	})
}

func TestC12Model(t *testing.T) {
	h := hx.Begin(t, "C12", "model")
	cfgs := sim.AllConfigs()
	rapid.Check(t, func(rt *rapid.T) {
		p := drawProfile(rt, []gen.Profile{gen.REG, gen.MEM, gen.WALK, gen.MEMSAFE, jumpsProfile}, []int{27, 35, 8, 15, 15})
		var c *gen.Case
		if p.Name == "JUMPS" {
			c = gen.JumpChainProgram(rt, p)
		} else {
			c = gen.Program(rt, p)
		}
		r, ok := refRun(c)
		if !ok {
			h.Skip()
			rt.Skip("reference run leaves the domain")
		}
		ld, st, tk := false, false, false
		for _, s := range r.Trace {
			ld = ld || s.Load
			st = st || s.Store
			tk = tk || s.Taken
		}
		h.Eval(hx.Hash(c.Text, c.Regs, c.MemSize, c.MemSeed), (ld && st && tk) || (p.Name == "JUMPS" && len(r.Trace) >= 6), "profile:"+p.Name)
		h.Sample(c)
		try := func(cc c12Case) {
			if err := c12Judge(cc); err != nil {
				h.Fail("c12", cc, caseSize(c), err.Error())
				rt.Fatalf("%v\n%s", err, c.Text)
			}
		}
		try(c12Case{Case: *c, Check: "mvp1-exact"})
		try(c12Case{Case: *c, Check: "mvp2-not-slower"})
		for _, cfg := range cfgs {
			if devOnly(cfg) {
				continue
			}
			if f := excludedBy("C12", c, &r, cfg); f != "" {
				h.Exclude(f)
				continue
			}
			h.Config(cfg.String())
			try(c12Case{Case: *c, Cfg: cfg, Check: "lower-bound"})
		}
	})
}

// jumpsProfile: chains of jumps between small blocks laid out far apart (an
// instruction-cache stress: MVP-2 <= MVP-1 must survive fetches that keep
// leaving the cached window in both directions).
var jumpsProfile = gen.Profile{Name: "JUMPS", MinLen: 3, MaxLen: 60, PoolMin: 2, PoolMax: 4, MemSizes: []int{256},
	W: gen.Weights{Alu: 1}, ZeroRaPct: 5, MaxDyn: 500}

var viProfile = gen.Profile{Name: "VI", MinLen: 4, MaxLen: 30, PoolMin: 4, PoolMax: 6, MemSizes: []int{256, 1024, 4096},
	W: gen.Weights{Alu: 1}, TakenPct: 50, ZeroRaPct: 0, MaxDyn: 1500}

func TestC12ValueIndependence(t *testing.T) {
	h := hx.Begin(t, "C12", "valueindep")
	cfgs := sim.AllConfigs()
	rapid.Check(t, func(rt *rapid.T) {
		c, data := gen.VIProgram(rt, viProfile)
		regs2 := c.Regs
		smallData := rapid.Bool().Draw(rt, "smalldata")
		for _, d := range data {
			regs2[d] = gen.Value().Draw(rt, "data2")
			if smallData {
				// data values that look like in-bounds addresses: if a data value ever
				// leaked into an address computation it would hit a real line
				regs2[d] = rapid.Int32Range(0, int32(c.MemSize)-1).Draw(rt, "data2small")
				c.Regs[d] = rapid.Int32Range(0, int32(c.MemSize)-1).Draw(rt, "data1small")
			}
		}
		c2 := *c
		c2.Regs = regs2
		r, ok := refRun(c)
		r2, ok2 := refRun(&c2)
		if !ok || !ok2 || !sameShape(&r, &r2) {
			h.Skip()
			rt.Skip("the two states do not give the same path and addresses")
		}
		differ := r.Reg != r2.Reg
		h.Eval(hx.Hash(c.Text, c.Regs, regs2, c.MemSize, c.MemSeed), differ)
		if h.WantSample() {
			h.Sample(map[string]any{"case": c, "regs2": regs2})
		} else {
			h.Sample(nil)
		}
		for _, cfg := range cfgs {
			if devOnly(cfg) {
				continue
			}
			h.Config(cfg.String())
			cc := c12Case{Case: *c, Cfg: cfg, Check: "value-independence", Regs2: regs2}
			if err := c12Judge(cc); err != nil {
				h.Fail("c12", cc, caseSize(c), err.Error())
				rt.Fatalf("%v\n%s", err, c.Text)
			}
		}
	})
}

// TestC12Table pins the documented latency table itself (common/latency cites
// the Apple M1 numbers it was taken from; the repository's TestBenchmarks pins
// cycle counts derived from it): the model check above reads the table from
// the code, so without this a changed entry would move both sides.
func TestC12Table(t *testing.T) {
	h := hx.Begin(t, "C12", "table")
	type entry struct {
		name      string
		got, want int
	}
	es := []entry{
		{"latency.RegisterAccess", latency.RegisterAccess, 1},
		{"latency.L1Access", latency.L1Access, 3},
		{"latency.L2Access", latency.L2Access, 18},
		{"latency.L3Access", latency.L3Access, 50},
		{"latency.MemoryAccess", latency.MemoryAccess, 309},
		{"latency.Flush", latency.Flush, 1},
	}
	for _, op := range ref.Mnemonics {
		in := ref.Ins{Op: op, Rd: 5, Rs1: 6, Rs2: 7}
		if ref.Shape(op) == ref.ShapeBr1 || ref.Shape(op) == ref.ShapeBr2 || ref.Shape(op) == ref.ShapeJ || ref.Shape(op) == ref.ShapeJal {
			in.Label = "L"
		}
		want := 1
		if in.IsLoad() {
			want = 50 // a load's execute latency is the documented load-to-use time
		}
		es = append(es, entry{"Cycles(" + op + ")", execCycles(in), want})
	}
	for i, e := range es {
		h.Eval(hx.Hash(e.name), true, "table")
		if i < 4 {
			h.Sample(map[string]any{"entry": e.name, "value": e.got})
		}
		if e.got != e.want {
			msg := fmt.Sprintf("latency table: %s = %d, the documented value is %d", e.name, e.got, e.want)
			h.Fail("c12table", e.name, 0, msg)
			t.Fatalf("%s", msg)
		}
	}
	h.Exhaustive()
}
