package checks

// C06 — MSI coherence invariants hold at every cycle on the multi-core
// variants (MVP-7.0, 7.1, 8).

import (
	"encoding/json"
	"fmt"
	"strings"
	"testing"

	"github.com/teivah/majorana/proc/comp"
	"pgregory.net/rapid"

	"verif/gen"
	"verif/hx"
	"verif/ref"
	"verif/sim"
)

const (
	msiInvalid  = 0
	msiShared   = 1
	msiModified = 2
)

// msiMonitor checks the invariants I1..I5 on one snapshot and accumulates the
// ownership history used by the non-triviality rule.
type msiMonitor struct {
	lastOwner map[int32]int // line -> last core seen Modified
	moved     bool          // some line was Modified on a core and later held (M or S) by another
	// scratch maps, cleared at every snapshot (the monitor runs on every cycle)
	semBusy map[int32]bool
	cmd     map[msiKey]bool
	state   map[msiKey]int32
	owners  map[int32]uint32 // line -> bit mask of the cores holding it Modified
	sharers map[int32]uint32 // line -> bit mask of the cores holding it Shared
	l3      map[int32][]int8
	seen    map[int32]bool
}

type msiKey struct {
	core int
	base int32
}

func newMonitor() *msiMonitor {
	return &msiMonitor{lastOwner: map[int32]int{}, semBusy: map[int32]bool{}, cmd: map[msiKey]bool{}, state: map[msiKey]int32{},
		owners: map[int32]uint32{}, sharers: map[int32]uint32{}, l3: map[int32][]int8{}, seen: map[int32]bool{}}
}

func byteAt(mem []int8, a int) int8 {
	if a < 0 || a >= len(mem) {
		return 0
	}
	return mem[a]
}

func maskCores(m uint32) []int {
	var out []int
	for c := 0; c < 32; c++ {
		if m&(1<<uint(c)) != 0 {
			out = append(out, c)
		}
	}
	return out
}

// check returns "" when every invariant holds on the snapshot.
func (mo *msiMonitor) check(s comp.VerifSnapshot, mem []int8) string {
	ls := int32(s.LineSize)
	clear(mo.semBusy)
	clear(mo.cmd)
	clear(mo.state)
	clear(mo.owners)
	clear(mo.sharers)
	clear(mo.l3)
	semBusy, cmd, state, owners, sharers, l3 := mo.semBusy, mo.cmd, mo.state, mo.owners, mo.sharers, mo.l3
	// I5: lock counters never negative
	for _, sem := range s.Sems {
		if sem.Read < 0 || sem.Write < 0 {
			return fmt.Sprintf("I5: lock counters of line %d are read=%d write=%d", sem.Base, sem.Read, sem.Write)
		}
		if sem.Read != 0 || sem.Write != 0 {
			semBusy[sem.Base] = true
		}
	}
	for _, c := range s.Commands {
		cmd[msiKey{c.Core, c.Base}] = true
	}
	// I1
	for _, st := range s.States {
		if st.State == msiInvalid {
			continue
		}
		state[msiKey{st.Core, st.Base}] = st.State
		switch st.State {
		case msiModified:
			owners[st.Base] |= 1 << uint(st.Core)
		case msiShared:
			sharers[st.Base] |= 1 << uint(st.Core)
		}
	}
	for base, om := range owners {
		os := maskCores(om)
		if len(os) > 1 {
			return fmt.Sprintf("I1: line %d is Modified on cores %v", base, os)
		}
		if sharers[base] != 0 {
			return fmt.Sprintf("I1: line %d is Modified on core %d and Shared on cores %v", base, os[0], maskCores(sharers[base]))
		}
		if prev, ok := mo.lastOwner[base]; ok && prev != os[0] {
			mo.moved = true
		}
		mo.lastOwner[base] = os[0]
	}
	for base, sm := range sharers {
		if prev, ok := mo.lastOwner[base]; ok && sm&^(1<<uint(prev)) != 0 {
			mo.moved = true
		}
	}
	// the next level, for I2
	for _, l := range s.L3 {
		l3[l.Base] = l.Data
	}
	for _, core := range s.Cores {
		seen := mo.seen
		clear(seen)
		for _, l := range core.L1 {
			// I4
			if l.Base%ls != 0 || len(l.Data) != s.LineSize {
				return fmt.Sprintf("I4: core %d holds a malformed line base=%d len=%d", core.ID, l.Base, len(l.Data))
			}
			if seen[l.Base] {
				return fmt.Sprintf("I4: core %d holds line %d twice", core.ID, l.Base)
			}
			seen[l.Base] = true
			st := state[msiKey{core.ID, l.Base}]
			// I2
			if st == msiShared {
				if s.L3LineSize > 0 {
					l3base := l.Base - l.Base%int32(s.L3LineSize)
					if data, ok := l3[l3base]; ok {
						for i := 0; i < s.LineSize; i++ {
							if l.Data[i] != data[int(l.Base-l3base)+i] {
								return fmt.Sprintf("I2: core %d holds line %d Shared, byte %d is %d but L3 holds %d", core.ID, l.Base, i, l.Data[i], data[int(l.Base-l3base)+i])
							}
						}
						goto i3
					}
				}
				for i := 0; i < s.LineSize; i++ {
					if l.Data[i] != byteAt(mem, int(l.Base)+i) {
						return fmt.Sprintf("I2: core %d holds line %d Shared, byte %d is %d but memory holds %d", core.ID, l.Base, i, l.Data[i], byteAt(mem, int(l.Base)+i))
					}
				}
			}
		i3:
			// I3, resident => not Invalid (outside a transfer in progress)
			if st == msiInvalid && !semBusy[l.Base] && !cmd[msiKey{core.ID, l.Base}] && !l3Busy(s, l.Base) {
				return fmt.Sprintf("I3: core %d holds line %d in L1 but its state is Invalid and no transfer is in progress", core.ID, l.Base)
			}
		}
		// I3, not Invalid => resident
		for k, st := range state {
			if k.core != core.ID {
				continue
			}
			if !seen[k.base] && !semBusy[k.base] && !cmd[k] && !l3Busy(s, k.base) {
				return fmt.Sprintf("I3: core %d has line %d in state %d but not in L1 and no transfer is in progress", core.ID, k.base, st)
			}
		}
	}
	return ""
}

// l3Busy: MVP-8, the L3 line covering base is locked or has a pending command.
func l3Busy(s comp.VerifSnapshot, base int32) bool {
	if s.L3LineSize == 0 {
		return false
	}
	l3base := base - base%int32(s.L3LineSize)
	for _, b := range s.L3Locked {
		if b == l3base {
			return true
		}
	}
	for _, c := range s.Commands {
		if c.Base == l3base || c.Base-c.Base%int32(s.L3LineSize) == l3base {
			return true
		}
	}
	return false
}

// ---- driver 1: random programs with the monitor on every cycle

type c06ProgCase struct {
	Case gen.Case   `json:"case"`
	Cfg  sim.Config `json:"cfg"`
}

// c06RunProgram runs a program with the monitor; it returns the first
// invariant violation (with its cycle), whether ownership moved, and the
// outcome kind.
func c06RunProgram(c *gen.Case, cfg sim.Config, steps int) (string, bool, sim.Outcome) {
	mo := newMonitor()
	viol := ""
	ticks := 0
	out := sim.Run(cfg, c.Prog.Text(), c.Init(), sim.BudgetFor(steps), func(vm sim.VM, cycle int) {
		if viol != "" {
			return
		}
		ticks++
		sn, ok := vm.(sim.Snapshotter)
		if !ok {
			return
		}
		if v := mo.check(sn.VerifSnapshot(), vm.Context().Memory); v != "" {
			viol = fmt.Sprintf("cycle %d: %s", cycle, v)
		}
	})
	if viol == "" && out.Kind == sim.Panic && (strings.Contains(out.Err, "is negative")) {
		viol = "I5: lock counter went negative: panic " + out.Err
	}
	return viol, mo.moved, out
}

func init() {
	hx.Register("c06prog", func(raw json.RawMessage) error {
		var c c06ProgCase
		if err := json.Unmarshal(raw, &c); err != nil {
			return err
		}
		r := ref.Run(&c.Case.Prog, c.Case.Init(), ref.Options{MaxSteps: 20000})
		if v, _, _ := c06RunProgram(&c.Case, c.Cfg, r.Steps); v != "" {
			return fmt.Errorf("%s: %s", c.Cfg, v)
		}
		return nil
	})
	hx.Register("c06rig", func(raw json.RawMessage) error {
		var c rigCase
		if err := json.Unmarshal(raw, &c); err != nil {
			return err
		}
		v, _ := runRig(c)
		if v != "" {
			return fmt.Errorf("%s", v)
		}
		return nil
	})
}

func TestC06Programs(t *testing.T) {
	h := hx.Begin(t, "C06", "programs")
	cfgs := configsWhere(sim.IsCoherent)
	rapid.Check(t, func(rt *rapid.T) {
		p := drawProfile(rt, []gen.Profile{gen.MEM, gen.WALK, gen.SHADOW, gen.SHADOWSLOW, gen.CACHE, gen.PAIR, gen.OWNER}, []int{25, 13, 13, 14, 15, 8, 12})
		var c *gen.Case
		if p.Name == "PAIR" {
			c = gen.PairProgram(rt, p)
		} else {
			c = gen.Program(rt, p)
		}
		r, ok := refRun(c)
		if !ok {
			h.Skip()
			rt.Skip("reference run leaves the domain")
		}
		moved := false
		for _, cfg := range cfgs {
			if devOnly(cfg) {
				continue
			}
			if f := excludedBy("C06", c, &r, cfg); f != "" {
				h.Exclude(f)
				continue
			}
			h.Config(cfg.String())
			v, mv, _ := c06RunProgram(c, cfg, r.Steps)
			moved = moved || mv
			if v != "" {
				cc := c06ProgCase{Case: *c, Cfg: cfg}
				h.Fail("c06prog", cc, caseSize(c), cfg.String()+": "+v)
				rt.Fatalf("%s: %s\n%s", cfg, v, c.Text)
			}
		}
		h.Eval(hx.Hash(c.Text, c.Regs, c.MemSize, c.MemSeed), moved, "profile:"+p.Name)
		h.Sample(c)
	})
}

// ---- driver 2: the controller rig

type rigReq struct {
	Core  int  `json:"core"`
	Write bool `json:"write"`
	Line  int  `json:"line"`
	Delay int  `json:"delay"` // cycles between the core becoming free and the issue
	Word  int  `json:"word"`  // word within the line
}

type rigFlush struct {
	At   int `json:"at"`   // cycle
	Core int `json:"core"` // -1 = every core
}

type rigCase struct {
	Variant string     `json:"variant"`
	Cores   int        `json:"cores"`
	Reqs    []rigReq   `json:"reqs"`
	Flushes []rigFlush `json:"flushes,omitempty"`
}

// runRig steps the rig cycle by cycle as CPU.Run does (snoop first, then the
// read/write coroutine of every core with a request in progress), checks
// I1..I5 after every cycle and that the rig reaches quiescence.
func runRig(c rigCase) (viol string, moved bool) {
	defer func() {
		if r := recover(); r != nil {
			viol = fmt.Sprintf("Go panic: %v", r)
		}
	}()
	memBytes := 512
	for _, r := range c.Reqs {
		if r.Line >= 8 {
			memBytes = 2048 // capacity schedules: more lines than an L1 holds
		}
	}
	rig := sim.NewRig(c.Variant, c.Cores, memBytes)
	mem := rig.Memory()
	for i := range mem {
		mem[i] = int8(i*7 + 3)
	}
	mo := newMonitor()
	type coreState struct {
		queue  []rigReq
		active *rigReq
		wait   int
		serial int
	}
	cores := make([]coreState, c.Cores)
	for _, r := range c.Reqs {
		cores[r.Core%c.Cores].queue = append(cores[r.Core%c.Cores].queue, r)
	}
	for i := range cores {
		if len(cores[i].queue) > 0 {
			cores[i].wait = cores[i].queue[0].Delay
		}
	}
	flushAt := map[int][]int{}
	for _, f := range c.Flushes {
		flushAt[f.At] = append(flushAt[f.At], f.Core)
	}
	// a request takes at most a line fetch plus the write-back of a victim
	// (2 x 309 cycles, serialised per core) after its issue delay
	limit := 700*(len(c.Reqs)+2) + 2000
	for _, r := range c.Reqs {
		limit += r.Delay
	}
	for cycle := 1; cycle <= limit; cycle++ {
		rig.Snoop()
		busy := false
		for i := range cores {
			cs := &cores[i]
			if cs.active == nil && len(cs.queue) > 0 {
				if cs.wait > 0 {
					cs.wait--
					busy = true
					continue
				}
				r := cs.queue[0]
				cs.queue = cs.queue[1:]
				cs.active = &r
				cs.serial++
			}
			if cs.active != nil {
				busy = true
				r := cs.active
				base := int32(r.Line*64 + (r.Word%16)*4)
				addrs := []int32{base, base + 1, base + 2, base + 3}
				done := false
				if r.Write {
					v := int8(16*(i+1) + cs.serial)
					done = rig.Write(i, addrs, []int8{v, v, v, v}, cycle)
				} else {
					_, done = rig.Read(i, addrs, cycle)
				}
				if done {
					cs.active = nil
					if len(cs.queue) > 0 {
						cs.wait = cs.queue[0].Delay
					}
				}
			}
		}
		for _, fc := range flushAt[cycle] {
			for i := range cores {
				if fc == -1 || fc == i {
					// the pipeline drops the instruction whose request it aborts
					rig.Flush(i)
					cores[i].active = nil
					if len(cores[i].queue) > 0 {
						cores[i].wait = cores[i].queue[0].Delay
					}
				}
			}
		}
		if v := mo.check(rig.Snapshot(), mem); v != "" {
			return fmt.Sprintf("cycle %d: %s", cycle, v), mo.moved
		}
		if !busy && rig.Quiescent() {
			// end of run: write back; every line state must still be consistent
			rig.WriteBack()
			return "", mo.moved
		}
	}
	return fmt.Sprintf("the controllers do not reach quiescence within %d cycles", limit), mo.moved
}

var rigVariants = []string{"mvp7-0", "mvp7-1", "mvp8-0"}

var rigFlushTimes = []int{1, 2, 150, 308, 309, 310, 311, 312, 313, 314, 316, 320, 360, 620, 630}

func TestC06RigRandom(t *testing.T) {
	h := hx.Begin(t, "C06", "rigrandom")
	rapid.Check(t, func(rt *rapid.T) {
		c := rigCase{Variant: rapid.SampledFrom(rigVariants).Draw(rt, "variant"), Cores: rapid.IntRange(2, 4).Draw(rt, "cores")}
		n := rapid.IntRange(1, 8).Draw(rt, "nreq")
		if rapid.IntRange(0, 5).Draw(rt, "capacity") == 0 {
			// capacity schedule: core 0 writes 17-19 distinct lines one after the
			// other, so that its 16-line L1 has to evict Modified lines; the other
			// cores touch the first lines around the time of those write-backs
			n = 0
			k := rapid.IntRange(17, 19).Draw(rt, "fill")
			for i := 0; i < k; i++ {
				c.Reqs = append(c.Reqs, rigReq{Core: 0, Write: true, Line: i, Word: rapid.IntRange(0, 15).Draw(rt, "word")})
			}
			for i := rapid.IntRange(1, 4).Draw(rt, "others"); i > 0; i-- {
				c.Reqs = append(c.Reqs, rigReq{
					Core:  rapid.IntRange(1, c.Cores-1).Draw(rt, "core"),
					Write: rapid.Bool().Draw(rt, "write"),
					Line:  rapid.IntRange(0, 3).Draw(rt, "line"),
					Delay: rapid.IntRange(4300, 6200).Draw(rt, "delay"),
					Word:  rapid.IntRange(0, 15).Draw(rt, "word"),
				})
			}
		}
		for i := 0; i < n; i++ {
			c.Reqs = append(c.Reqs, rigReq{
				Core:  rapid.IntRange(0, c.Cores-1).Draw(rt, "core"),
				Write: rapid.Bool().Draw(rt, "write"),
				Line:  rapid.IntRange(0, 2).Draw(rt, "line"),
				Delay: rapid.IntRange(0, 3).Draw(rt, "delay"),
				Word:  rapid.IntRange(0, 15).Draw(rt, "word"),
			})
		}
		for k := rapid.IntRange(0, 2).Draw(rt, "nflush"); k > 0; k-- {
			c.Flushes = append(c.Flushes, rigFlush{At: rapid.IntRange(1, 700).Draw(rt, "at"), Core: rapid.IntRange(-1, c.Cores-1).Draw(rt, "fcore")})
		}
		v, moved := runRig(c)
		h.Eval(hx.Hash(c), moved, "variant:"+c.Variant, fmt.Sprintf("flushes:%d", len(c.Flushes)))
		h.Sample(c)
		if v != "" {
			h.Fail("c06rig", c, len(c.Reqs)*10+len(c.Flushes), c.Variant+": "+v)
			rt.Fatalf("%s: %s\n%+v", c.Variant, v, c)
		}
	})
}

// TestC06RigExhaustive enumerates every schedule of up to k requests (core,
// read|write, line, issue delay) from 2-3 cores on 1-2 lines, without flush
// and with one flush of one or every core at a set of critical cycles.
func TestC06RigExhaustive(t *testing.T) {
	h := hx.Begin(t, "C06", "rigexhaustive")
	k := h.Env.Count
	if k == 0 {
		k = 3
	}
	var n, nt int64
	idx := 0
	failed := false
	for _, variant := range rigVariants {
		for _, ncores := range []int{2, 3} {
			var opts []rigReq
			for core := 0; core < ncores; core++ {
				for _, w := range []bool{false, true} {
					for line := 0; line < 2; line++ {
						for _, d := range []int{0, 1, 2} {
							opts = append(opts, rigReq{Core: core, Write: w, Line: line, Delay: d})
						}
					}
				}
			}
			reqs := make([]rigReq, 0, k)
			var rec func(d int)
			rec = func(d int) {
				if failed {
					return
				}
				if d > 0 {
					idx++
					if idx%h.Env.Shards == h.Env.Shard {
						try := func(fl []rigFlush) {
							c := rigCase{Variant: variant, Cores: ncores, Reqs: append([]rigReq(nil), reqs...), Flushes: fl}
							n++
							v, moved := runRig(c)
							if moved {
								nt++
							}
							if n == 3 || n == 3000 {
								h.Sample(c)
							}
							if v != "" {
								failed = true
								h.Fail("c06rig", c, len(c.Reqs)*10+len(c.Flushes), variant+": "+v)
								t.Errorf("%s: %s %+v", variant, v, c)
							}
						}
						try(nil)
						if d <= k-1 && !failed {
							// one flush at a critical cycle, of one core or of all
							for _, at := range rigFlushTimes {
								for fc := -1; fc < ncores && !failed; fc++ {
									try([]rigFlush{{At: at, Core: fc}})
								}
							}
						}
					}
				}
				if d == k {
					return
				}
				for _, o := range opts {
					reqs = append(reqs, o)
					rec(d + 1)
					reqs = reqs[:len(reqs)-1]
				}
			}
			rec(0)
		}
	}
	if !failed {
		h.Exhaustive()
	}
	h.Evals(n)
	h.NontrivialBulk(nt)
}
