package checks

// C02 — each instruction has RV32IM semantics on all operand values.

import (
	"encoding/json"
	"fmt"
	"os"
	"sort"
	"testing"

	"github.com/teivah/majorana/risc"
	"pgregory.net/rapid"

	"verif/gen"
	"verif/hx"
	"verif/ref"
)

// c02Case is a one-instruction program with its operand values.
type c02Case struct {
	Ins  ref.Ins `json:"ins"`
	A    int32   `json:"a"`   // value of rs1 (ignored when rs1 is zero)
	B    int32   `json:"b"`   // value of rs2 (ignored when rs2 is zero or rs2 == rs1)
	Pc   int32   `json:"pc"`  // multiple of 4
	Tgt  int32   `json:"tgt"` // address of the label (multiple of 4)
	Mem  [4]int8 `json:"mem"` // bytes at the effective address of a load
	RAT  bool    `json:"rat"` // run on a rename-table context
	Text string  `json:"text"`
	// Fwd (C04): 1 / 2 = the value of rs1 / rs2 reaches the instruction through
	// the forwarding channel while the register file still holds another value
	Fwd int `json:"fwd,omitempty"`
}

func c02Filler(i int) int32 { return int32(1000003*i + 17) }

// c02Alt is the second, table-driven oracle: closed-form expressions on
// 64-bit integers, written independently of ref.ALU.
func c02Alt(op string, a, b, imm, pc int32) int32 {
	A, B, I := int64(a), int64(b), int64(imm)
	UA, UB := uint64(uint32(a)), uint64(uint32(b))
	t := func(x int64) int32 { return int32(uint32(uint64(x) & 0xffffffff)) }
	bit := func(c bool) int32 {
		if c {
			return 1
		}
		return 0
	}
	switch op {
	case "add":
		return t(A + B)
	case "sub":
		return t(A - B)
	case "and":
		return t(A & B)
	case "or":
		return t(A | B)
	case "xor":
		return t(A ^ B)
	case "mul":
		return t(A * B)
	case "div":
		return t(A / B)
	case "rem":
		return t(A % B)
	case "slt":
		return bit(A < B)
	case "sltu":
		return bit(UA < UB)
	case "sll":
		return t(int64(UA << (UB % 32)))
	case "srl":
		return t(int64(UA >> (UB % 32)))
	case "sra":
		return t(A >> (UB % 32))
	case "addi":
		return t(A + I)
	case "andi":
		return t(A & I)
	case "ori":
		return t(A | I)
	case "xori":
		return t(A ^ I)
	case "slti":
		return bit(A < I)
	case "slli":
		return t(int64(UA << (uint64(uint32(imm)) % 32)))
	case "srli":
		return t(int64(UA >> (uint64(uint32(imm)) % 32)))
	case "srai":
		return t(A >> (uint64(uint32(imm)) % 32))
	case "li":
		return imm
	case "lui":
		return t(I * 4096)
	case "auipc":
		return t(int64(pc) + I*4096)
	case "mv":
		return a
	}
	panic(op)
}

func c02AltCond(op string, a, b int32) bool {
	A, B := int64(a), int64(b)
	UA, UB := uint64(uint32(a)), uint64(uint32(b))
	switch op {
	case "beq":
		return A-B == 0
	case "bne":
		return A-B != 0
	case "blt":
		return A-B < 0
	case "bge":
		return A-B >= 0
	case "ble":
		return A-B <= 0
	case "bltu":
		return UA < UB
	case "bgeu":
		return UA >= UB
	case "beqz":
		return A == 0
	case "bnez":
		return A != 0
	}
	panic(op)
}

func regSet(rs []risc.RegisterType) []int {
	m := map[int]bool{}
	for _, r := range rs {
		if r != risc.Zero {
			m[int(r)] = true
		}
	}
	var out []int
	for r := range m {
		out = append(out, r)
	}
	sort.Ints(out)
	return out
}

func intSet(rs []int) []int {
	m := map[int]bool{}
	for _, r := range rs {
		if r != 0 && r >= 0 {
			m[r] = true
		}
	}
	var out []int
	for r := range m {
		out = append(out, r)
	}
	sort.Ints(out)
	return out
}

func eqInts(a, b []int) bool {
	if len(a) != len(b) {
		return false
	}
	for i := range a {
		if a[i] != b[i] {
			return false
		}
	}
	return true
}

// c02Judge runs the real instruction and compares its architectural effect
// with both oracles. It returns (violation, nontrivial).
func c02Judge(c c02Case) (err error) {
	in := c.Ins
	text := in.Text()
	app, perr := risc.Parse("    " + text + "\n")
	if perr != nil {
		return fmt.Errorf("%q is not accepted by the assembler: %v", text, perr)
	}
	if len(app.Instructions) != 1 {
		return fmt.Errorf("%q parsed into %d instructions", text, len(app.Instructions))
	}
	return c02JudgeRunner(app.Instructions[0], c)
}

// c02JudgeRunner judges an already decoded instruction against what the AST
// instruction c.Ins must do (also used by C11 to establish that the assembler
// decoded each line right).
func c02JudgeRunner(runner risc.InstructionRunner, c c02Case) (err error) {
	in := c.Ins
	text := in.Text()
	labels := map[string]int32{}
	if in.Label != "" {
		labels[in.Label] = c.Tgt
	}
	// operand values as the instruction sees them
	a, b := c.A, c.B
	if in.Rs1 == 0 {
		a = 0
	}
	if in.Rs2 == in.Rs1 {
		b = a
	}
	if in.Rs2 == 0 {
		b = 0
	}
	ctx := risc.NewContext(false, 8, c.RAT)
	for i := 1; i < 32; i++ {
		ctx.Registers[risc.RegisterType(i)] = c02Filler(i)
	}
	reads := in.Reads()
	for _, r := range reads {
		if r == in.Rs1 && r != 0 {
			ctx.Registers[risc.RegisterType(r)] = a
		}
	}
	sh := ref.Shape(in.Op)
	usesRs2 := sh == ref.ShapeR || sh == ref.ShapeStore || sh == ref.ShapeBr2
	if usesRs2 && in.Rs2 != 0 {
		ctx.Registers[risc.RegisterType(in.Rs2)] = b
	}
	if c.RAT {
		ctx.InitRAT()
	}
	if c.Fwd != 0 {
		reg := in.Rs1
		if c.Fwd == 2 {
			reg = in.Rs2
		}
		read := false
		for _, r := range reads {
			if r == reg {
				read = true
			}
		}
		if reg != 0 && read {
			// the producer's result is forwarded; the register file is stale
			v := ctx.Registers[risc.RegisterType(reg)]
			ctx.Registers[risc.RegisterType(reg)] = v ^ 0x5a5a5a5a
			if c.RAT {
				ctx.InitRAT()
			}
			runner.Forward(risc.Forward{Register: risc.RegisterType(reg), Value: v})
			defer runner.Forward(risc.Forward{})
		}
	}
	before := map[risc.RegisterType]int32{}
	for k, v := range ctx.Registers {
		before[k] = v
	}

	defer func() {
		if r := recover(); r != nil {
			err = fmt.Errorf("%q with rs1=%d rs2=%d: Go panic: %v", text, a, b, r)
		}
	}()

	// declared register sets
	wantReads := intSet(reads)
	gotReads := regSet(runner.ReadRegisters())
	if !eqInts(wantReads, gotReads) {
		return fmt.Errorf("%q: declared read set %v, the instruction reads %v", text, names(gotReads), names(wantReads))
	}
	wantWrites := intSet([]int{in.Writes()})
	gotWrites := regSet(runner.WriteRegisters())
	if !eqInts(wantWrites, gotWrites) {
		return fmt.Errorf("%q: declared write set %v, the instruction writes %v", text, names(gotWrites), names(wantWrites))
	}

	// declared classification: the type predicates are what the control units
	// consult instead of the sets (routing of loads and stores, holding back ret
	// behind a conditional branch, branch-target-buffer handling of jumps)
	it := runner.InstructionType()
	isJump := sh == ref.ShapeJ || sh == ref.ShapeJal || sh == ref.ShapeJalr
	isCond := sh == ref.ShapeBr1 || sh == ref.ShapeBr2
	if it.IsMemoryRead() != in.IsLoad() {
		return fmt.Errorf("%q: type %v declares IsMemoryRead=%v, the instruction loads: %v", text, it, it.IsMemoryRead(), in.IsLoad())
	}
	if it.IsMemoryWrite() != in.IsStore() {
		return fmt.Errorf("%q: type %v declares IsMemoryWrite=%v, the instruction stores: %v", text, it, it.IsMemoryWrite(), in.IsStore())
	}
	if it.IsConditionalBranch() != isCond {
		return fmt.Errorf("%q: type %v declares IsConditionalBranch=%v, want %v", text, it, it.IsConditionalBranch(), isCond)
	}
	if it.IsUnconditionalBranch() != isJump {
		return fmt.Errorf("%q: type %v declares IsUnconditionalBranch=%v, want %v", text, it, it.IsUnconditionalBranch(), isJump)
	}
	if it.IsBranch() != (isJump || isCond) {
		return fmt.Errorf("%q: type %v declares IsBranch=%v, want %v", text, it, it.IsBranch(), isJump || isCond)
	}

	// memory addresses
	size := ref.AccessSize(in.Op)
	ea := a + in.Imm
	var wantAddrs []int32
	for i := int32(0); i < size; i++ {
		wantAddrs = append(wantAddrs, ea+i)
	}
	mr := runner.MemoryRead(ctx, 0)
	mw := runner.MemoryWrite(ctx, 0)
	if in.IsLoad() {
		if !eqI32(mr, wantAddrs) {
			return fmt.Errorf("%q with base=%d: MemoryRead %v want %v", text, a, mr, wantAddrs)
		}
	} else if len(mr) != 0 {
		return fmt.Errorf("%q: MemoryRead %v for an instruction that loads nothing", text, mr)
	}
	if in.IsStore() {
		if !eqI32(mw, wantAddrs) {
			return fmt.Errorf("%q with base=%d: MemoryWrite %v want %v", text, a, mw, wantAddrs)
		}
	} else if len(mw) != 0 {
		return fmt.Errorf("%q: MemoryWrite %v for an instruction that stores nothing", text, mw)
	}

	var memory []int8
	if in.IsLoad() {
		memory = append(memory, c.Mem[:size]...)
	}
	exe, rerr := runner.Run(ctx, labels, c.Pc, memory, 0)
	if rerr != nil {
		return fmt.Errorf("%q with rs1=%d rs2=%d: unexpected error %v", text, a, b, rerr)
	}
	// the register file must not be touched by Run itself
	for i := 0; i < 32; i++ {
		r := risc.RegisterType(i)
		if ctx.Registers[r] != before[r] {
			return fmt.Errorf("%q at pc=%d: Run itself changed register %s from %d to %d (only the returned Execution may carry effects)", text, c.Pc, ref.RegNames[i], before[r], ctx.Registers[r])
		}
	}

	// expected effect
	wantRd, wantVal := -1, int32(0)
	wantPcChange, wantNext := false, int32(0)
	var wantMem map[int32]int8
	switch sh {
	case ref.ShapeR, ref.ShapeI, ref.ShapeU, ref.ShapeMv:
		v1, ok := ref.ALU(in.Op, a, b, in.Imm, c.Pc)
		if !ok {
			return nil // division by zero: C07's domain
		}
		v2 := c02Alt(in.Op, a, b, in.Imm, c.Pc)
		if v1 != v2 {
			panic(fmt.Sprintf("oracle self-check: %s a=%d b=%d imm=%d: ref %d alt %d", in.Op, a, b, in.Imm, v1, v2))
		}
		wantRd, wantVal = in.Rd, v1
	case ref.ShapeLoad:
		wantRd = in.Rd
		full := []int8{c.Mem[0], c.Mem[1], c.Mem[2], c.Mem[3]}
		wantVal = ref.LoadValue(in.Op, full, 0)
	case ref.ShapeStore:
		wantMem = map[int32]int8{}
		for i, by := range ref.StoreBytes(in.Op, b) {
			wantMem[ea+int32(i)] = by
		}
	case ref.ShapeBr2, ref.ShapeBr1:
		t1 := ref.Cond(in.Op, a, b)
		if t1 != c02AltCond(in.Op, a, b) {
			panic(fmt.Sprintf("oracle self-check: %s a=%d b=%d", in.Op, a, b))
		}
		if t1 {
			wantPcChange, wantNext = true, c.Tgt
		}
	case ref.ShapeJ:
		wantPcChange, wantNext = true, c.Tgt
	case ref.ShapeJal:
		wantPcChange, wantNext = true, c.Tgt
		wantRd, wantVal = in.Rd, c.Pc+4
	case ref.ShapeJalr:
		wantPcChange, wantNext = true, a+in.Imm
		wantRd, wantVal = in.Rd, c.Pc+4
	}
	desc := fmt.Sprintf("%q with rs1=%d rs2=%d pc=%d", text, a, b, c.Pc)
	if in.IsLoad() {
		desc = fmt.Sprintf("%q loading bytes %v", text, memory)
	}
	// register effect
	if wantRd > 0 {
		if !exe.RegisterChange || int(exe.Register) != wantRd {
			return fmt.Errorf("%s: wrote register %v (change=%v), want %s", desc, exe.Register, exe.RegisterChange, ref.RegNames[wantRd])
		}
		if exe.RegisterValue != wantVal {
			return fmt.Errorf("%s: %s = %d, RV32IM gives %d", desc, ref.RegNames[wantRd], exe.RegisterValue, wantVal)
		}
	} else {
		// destination zero or no destination: nothing may change; a write of 0 to
		// the zero register is harmless
		if exe.RegisterChange && !(exe.Register == risc.Zero && exe.RegisterValue == 0) {
			return fmt.Errorf("%s: unexpected register write %v=%d", desc, exe.Register, exe.RegisterValue)
		}
	}
	// memory effect
	if wantMem != nil {
		if !exe.MemoryChange || len(exe.MemoryChanges) != len(wantMem) {
			return fmt.Errorf("%s: memory changes %v want %v", desc, exe.MemoryChanges, wantMem)
		}
		for k, v := range wantMem {
			if g, ok := exe.MemoryChanges[k]; !ok || g != v {
				return fmt.Errorf("%s: memory changes %v want %v", desc, exe.MemoryChanges, wantMem)
			}
		}
	} else if exe.MemoryChange && len(exe.MemoryChanges) > 0 {
		return fmt.Errorf("%s: unexpected memory changes %v", desc, exe.MemoryChanges)
	}
	// control effect
	gotPc := exe.PcChange && exe.NextPc != c.Pc+4
	wantPc := wantPcChange && wantNext != c.Pc+4
	if wantPc != gotPc || (wantPc && exe.NextPc != wantNext) {
		return fmt.Errorf("%s: next pc change=%v to %d, want change=%v to %d", desc, exe.PcChange, exe.NextPc, wantPcChange, wantNext)
	}
	if wantPcChange && !exe.PcChange {
		// a taken transfer to pc+4 must still be reported as a transfer or be
		// indistinguishable; accept
		_ = wantNext
	}
	if (in.Op == "ret") != exe.Return {
		return fmt.Errorf("%s: Return flag %v", desc, exe.Return)
	}
	return nil
}

func names(rs []int) []string {
	var out []string
	for _, r := range rs {
		out = append(out, ref.RegNames[r])
	}
	return out
}

func eqI32(a, b []int32) bool {
	if len(a) != len(b) {
		return false
	}
	for i := range a {
		if a[i] != b[i] {
			return false
		}
	}
	return true
}

// c02Nontrivial: the operands separate two readings of the instruction
// (signed/unsigned, logical/arithmetic, masked/unmasked, sign/zero extension,
// wrap-around) — see the rule text in the evidence.
func c02Nontrivial(c c02Case) bool {
	in := c.Ins
	a, b := c.A, c.B
	if in.Rs1 == 0 {
		a = 0
	}
	if in.Rs2 == in.Rs1 {
		b = a
	}
	if in.Rs2 == 0 {
		b = 0
	}
	switch in.Op {
	case "slt", "sltu", "blt", "bltu", "bge", "bgeu", "ble":
		return (a < b) != (uint32(a) < uint32(b))
	case "slti":
		return (a < in.Imm) != (uint32(a) < uint32(in.Imm))
	case "sll", "srl", "sra":
		return uint32(b) > 31 || a < 0
	case "slli", "srli", "srai":
		return uint32(in.Imm) > 31 || a < 0
	case "add", "sub", "mul":
		w, _ := ref.ALU(in.Op, a, b, 0, 0)
		var x int64
		switch in.Op {
		case "add":
			x = int64(a) + int64(b)
		case "sub":
			x = int64(a) - int64(b)
		default:
			x = int64(a) * int64(b)
		}
		return int64(w) != x
	case "addi":
		return int64(a)+int64(in.Imm) != int64(a+in.Imm)
	case "div", "rem":
		return a < 0 || b < 0
	case "lb":
		return c.Mem[0] < 0
	case "lh":
		return c.Mem[1] < 0
	case "lw":
		return c.Mem[3] < 0 || c.Mem[0] < 0
	case "sb", "sh", "sw":
		return b < 0 || uint32(b) > 0xff
	case "lui", "auipc":
		return in.Imm < 0 || in.Imm >= 1<<19
	case "jal", "jalr", "j":
		return in.Rd == 0 || in.Rd != 1 || c.Pc != 0
	}
	return a < 0 || b < 0 || in.Imm < 0 || in.Rd == 0 || in.Rd == in.Rs1
}

func init() {
	hx.Register("c02", func(raw json.RawMessage) error {
		var c c02Case
		if err := json.Unmarshal(raw, &c); err != nil {
			return err
		}
		return c02Judge(c)
	})
}

// aliasPatterns are (rd, rs1, rs2) register choices covering distinct
// registers, every aliasing pattern and the zero register in every position.
var aliasPatterns = [][3]int{
	{5, 6, 7}, {5, 5, 7}, {5, 6, 5}, {5, 6, 6}, {5, 5, 5},
	{0, 6, 7}, {5, 0, 7}, {5, 6, 0}, {0, 0, 0}, {1, 31, 10}, {31, 1, 1},
}

// TestC02Lattice: every mnemonic x the boundary lattice squared x the alias
// patterns, exhaustively.
func TestC02Lattice(t *testing.T) {
	h := hx.Begin(t, "C02", "lattice")
	L := gen.Lattice
	bytesL := []int8{0, 1, 0x7f, -128, -1, 0x55, -86}
	nfail := 0
	diag := map[string]bool{}
	for oi, op := range ref.Mnemonics {
		if oi%h.Env.Shards != h.Env.Shard {
			continue // the mnemonics are dealt round-robin to the shards
		}
		sh := ref.Shape(op)
		for pi, pat := range aliasPatterns {
			for ai, a := range L {
				for bi, b := range L {
					in := ref.Ins{Op: op, Rd: pat[0], Rs1: pat[1], Rs2: pat[2]}
					c := c02Case{Ins: in, A: a, B: b, Pc: 0, Tgt: 40}
					switch sh {
					case ref.ShapeI, ref.ShapeU, ref.ShapeJalr, ref.ShapeLoad, ref.ShapeStore:
						// the second lattice value is the immediate
						c.Ins.Imm = b
						c.B = L[(ai+bi)%len(L)]
					}
					if sh == ref.ShapeLoad {
						c.Mem = [4]int8{bytesL[ai%7], bytesL[bi%7], bytesL[(ai+bi)%7], bytesL[(ai*bi)%7]}
					}
					if sh == ref.ShapeBr1 || sh == ref.ShapeBr2 || sh == ref.ShapeJ || sh == ref.ShapeJal {
						c.Ins.Label = "L"
						c.Tgt = int32(4 * ((ai + 3*bi) % 250))
						c.Pc = int32(4 * ((3*ai + bi) % 250))
					}
					if sh == ref.ShapeJalr || op == "auipc" {
						c.Pc = int32(4 * ((3*ai + bi) % 250))
					}
					if (op == "div" || op == "rem") && (b == 0 || pat[2] == 0 || (pat[2] == pat[1] && a == 0) || pat[1] == 0 && pat[2] == pat[1]) {
						continue
					}
					if sh == ref.ShapeNone || sh == ref.ShapeJ {
						if ai > 0 || bi > 3 || pi > 0 {
							continue // no operands to vary
						}
					}
					if sh == ref.ShapeU || sh == ref.ShapeMv || sh == ref.ShapeBr1 || sh == ref.ShapeJal {
						if bi >= 8 && sh != ref.ShapeU {
							continue // one source or none: the second operand only varies the pc/target
						}
					}
					for _, rat := range []bool{false, true} {
						c.RAT = rat
						c.Text = c.Ins.Text()
						h.Eval(hx.Hash(op, pat, a, b, rat), c02Nontrivial(c), "op:"+op)
						h.Sample(c)
						if err := c02Judge(c); err != nil {
							if os.Getenv("VERIF_DIAG") != "" {
								if !diag[op] {
									diag[op] = true
									t.Logf("DIAG %v", err)
									h.AddViolation("c02", c, op, err.Error())
								}
								continue
							}
							nfail++
							h.Fail("c02", c, 0, err.Error())
							t.Fatalf("%v", err)
						}
					}
				}
			}
		}
	}
	h.Exhaustive()
}

func genC02(rt *rapid.T) c02Case {
	op := rapid.SampledFrom(ref.Mnemonics).Draw(rt, "op")
	reg := gen.AnyReg()
	in := ref.Ins{Op: op, Rd: reg.Draw(rt, "rd"), Rs1: reg.Draw(rt, "rs1"), Rs2: reg.Draw(rt, "rs2")}
	switch rapid.IntRange(0, 5).Draw(rt, "alias") {
	case 0:
		in.Rs1 = in.Rd
	case 1:
		in.Rs2 = in.Rd
	case 2:
		in.Rs2 = in.Rs1
	}
	c := c02Case{Ins: in, A: gen.Value().Draw(rt, "a"), B: gen.Value().Draw(rt, "b"), RAT: rapid.Bool().Draw(rt, "rat")}
	sh := ref.Shape(op)
	switch sh {
	case ref.ShapeI, ref.ShapeU, ref.ShapeJalr, ref.ShapeLoad, ref.ShapeStore:
		c.Ins.Imm = gen.Value().Draw(rt, "imm")
	}
	if sh == ref.ShapeLoad {
		for i := range c.Mem {
			c.Mem[i] = int8(gen.Value().Draw(rt, "byte"))
		}
	}
	c.Pc = 4 * rapid.Int32Range(0, 249).Draw(rt, "pc")
	if sh == ref.ShapeBr1 || sh == ref.ShapeBr2 || sh == ref.ShapeJ || sh == ref.ShapeJal {
		c.Ins.Label = "L"
		c.Tgt = 4 * rapid.Int32Range(0, 250).Draw(rt, "tgt")
	}
	c.Text = c.Ins.Text()
	return c
}

// TestC02Random: random operands, registers, immediates and pcs.
func TestC02Random(t *testing.T) {
	h := hx.Begin(t, "C02", "random")
	rapid.Check(t, func(rt *rapid.T) {
		for k := 0; k < 16; k++ {
			c := genC02(rt)
			if (c.Ins.Op == "div" || c.Ins.Op == "rem") && (c.B == 0 || c.Ins.Rs2 == 0 || (c.Ins.Rs2 == c.Ins.Rs1 && (c.A == 0 || c.Ins.Rs1 == 0))) {
				h.Skip()
				continue
			}
			h.Eval(hx.Hash(c.Text, c.A, c.B, c.Pc, c.Tgt, c.Mem, c.RAT), c02Nontrivial(c), "op:"+c.Ins.Op)
			h.Sample(c)
			if err := c02Judge(c); err != nil {
				h.Fail("c02", c, 0, err.Error())
				rt.Fatalf("%v", err)
			}
		}
	})
}

// FuzzC02 drives the same judge from native fuzzing (thorough tier).
func FuzzC02(f *testing.F) {
	f.Add(uint8(0), uint8(5), uint8(6), uint8(7), int32(1), int32(-1), int32(32), uint16(0), false)
	f.Add(uint8(35), uint8(5), uint8(5), uint8(0), int32(-2147483648), int32(-1), int32(-1), uint16(9), true)
	f.Fuzz(func(t *testing.T, opi, rd, rs1, rs2 uint8, a, b, imm int32, pcw uint16, rat bool) {
		op := ref.Mnemonics[int(opi)%len(ref.Mnemonics)]
		in := ref.Ins{Op: op, Rd: int(rd % 32), Rs1: int(rs1 % 32), Rs2: int(rs2 % 32)}
		c := c02Case{Ins: in, A: a, B: b, RAT: rat, Pc: 4 * int32(pcw%250)}
		sh := ref.Shape(op)
		switch sh {
		case ref.ShapeI, ref.ShapeU, ref.ShapeJalr, ref.ShapeLoad, ref.ShapeStore:
			c.Ins.Imm = imm
		}
		if sh == ref.ShapeLoad {
			c.Mem = [4]int8{int8(imm), int8(imm >> 8), int8(imm >> 16), int8(imm >> 24)}
			c.Ins.Imm = b
		}
		if sh == ref.ShapeBr1 || sh == ref.ShapeBr2 || sh == ref.ShapeJ || sh == ref.ShapeJal {
			c.Ins.Label = "L"
			c.Tgt = 4 * int32(uint32(imm)%251)
		}
		if (op == "div" || op == "rem") && (b == 0 || in.Rs2 == 0 || (in.Rs2 == in.Rs1 && (a == 0 || in.Rs1 == 0))) {
			t.Skip()
		}
		if err := c02Judge(c); err != nil {
			t.Fatal(err)
		}
	})
}
