package checks

// C14 — pipeline buses deliver each item once, in order, a cycle later, within
// capacity.

import (
	"container/list"
	"encoding/json"
	"fmt"
	"runtime"
	"sync/atomic"
	"testing"

	"github.com/teivah/majorana/proc/comp"
	"pgregory.net/rapid"

	"verif/hx"
)

type busOp struct {
	Op  string `json:"op"` // add, tick, get, pick, revert, dellast, clean
	Arg int    `json:"arg,omitempty"`
}

type busCase struct {
	Kind string  `json:"kind"` // simple, buffered
	In   int     `json:"in,omitempty"`
	Out  int     `json:"out,omitempty"`
	Ops  []busOp `json:"ops"`
}

type bufItem struct {
	id    int
	avail int
}

// runBuffered drives comp.BufferedBus and its model: a buffer of (item,
// available-from cycle) and a queue; Connect(cycle) moves the available head of
// the buffer into the queue while the queue has room. The pipeline calls
// Connect once at the start of every cycle ("tick"), producers add only while
// CanAdd reports room.
func runBuffered(c busCase, stats map[string]int) (err error) {
	defer func() {
		if r := recover(); r != nil {
			err = fmt.Errorf("Go panic: %v", r)
		}
	}()
	b := comp.NewBufferedBus[int](c.In, c.Out)
	var buffer []bufItem
	var queue []int
	cycle := 1
	next := 1
	addedAt := map[int]int{}
	delivered := map[int]bool{}
	var deliveredOrder []int
	justGot := -1
	connect := func() {
		for len(buffer) > 0 && len(queue) < c.In && buffer[0].avail <= cycle {
			queue = append(queue, buffer[0].id)
			buffer = buffer[1:]
		}
	}
	deliver := func(i int, op busOp, id int) error {
		if delivered[id] {
			return fmt.Errorf("step %d %+v: item %d delivered twice", i, op, id)
		}
		delivered[id] = true
		deliveredOrder = append(deliveredOrder, id)
		if at, ok := addedAt[id]; ok && cycle <= at {
			return fmt.Errorf("step %d %+v: item %d put in cycle %d is visible in cycle %d", i, op, id, at, cycle)
		}
		stats["delivered"]++
		return nil
	}
	observers := func(i int, op busOp) error {
		if got, want := b.CanGet(), len(queue) != 0; got != want {
			return fmt.Errorf("step %d %+v: CanGet %v want %v", i, op, got, want)
		}
		if got, want := b.IsEmpty(), len(queue) == 0 && len(buffer) == 0; got != want {
			return fmt.Errorf("step %d %+v: IsEmpty %v want %v", i, op, got, want)
		}
		if got, want := b.PendingRead(), len(queue); got != want {
			return fmt.Errorf("step %d %+v: PendingRead %d want %d", i, op, got, want)
		}
		if got, want := b.RemainingToAdd(), c.Out-len(buffer); got != want {
			return fmt.Errorf("step %d %+v: RemainingToAdd %d want %d", i, op, got, want)
		}
		if got, want := b.CanAdd(), len(buffer) != c.Out; got != want {
			return fmt.Errorf("step %d %+v: CanAdd %v want %v", i, op, got, want)
		}
		if len(queue) > c.In+1 || len(buffer) > c.Out+1 {
			return fmt.Errorf("step %d %+v: model exceeds capacity (harness error)", i, op)
		}
		for _, id := range queue {
			id := id
			if !b.Exists(func(x int) bool { return x == id }) {
				return fmt.Errorf("step %d %+v: item %d should be readable", i, op, id)
			}
		}
		return nil
	}
	for i, op := range c.Ops {
		switch op.Op {
		case "add":
			if !b.CanAdd() {
				stats["backpressure"]++
				continue // producers add only while the bus reports room
			}
			if len(buffer) >= c.Out {
				return fmt.Errorf("step %d %+v: CanAdd is true with %d buffered items (capacity %d)", i, op, len(buffer), c.Out)
			}
			id := next
			next++
			addedAt[id] = cycle
			b.Add(id, cycle)
			buffer = append(buffer, bufItem{id, cycle + 1})
			justGot = -1
		case "tick":
			cycle++
			b.Connect(cycle)
			connect()
			justGot = -1
		case "connect":
			// the bus is connected again within the current cycle (the pipelines
			// do so in their drain loops): what was put in this cycle stays invisible
			// and nothing is lost
			b.Connect(cycle)
			connect()
			justGot = -1
		case "connectearly":
			// ... or with an earlier cycle number
			b.Connect(cycle - 1)
			saved := cycle
			cycle--
			connect()
			cycle = saved
			justGot = -1
		case "get":
			v, ok := b.Get()
			if ok != (len(queue) > 0) {
				return fmt.Errorf("step %d %+v: Get present=%v, %d items are readable", i, op, ok, len(queue))
			}
			justGot = -1
			if ok {
				if v != queue[0] {
					return fmt.Errorf("step %d %+v: Get returned item %d, the next one in order is %d", i, op, v, queue[0])
				}
				queue = queue[1:]
				if err := deliver(i, op, v); err != nil {
					return err
				}
				justGot = v
			}
		case "pick":
			// take the first readable item with the drawn parity
			par := op.Arg % 2
			v, ok := b.Pick(func(x int) bool { return x%2 == par })
			idx := -1
			for k, id := range queue {
				if id%2 == par {
					idx = k
					break
				}
			}
			if ok != (idx >= 0) {
				return fmt.Errorf("step %d %+v: Pick found=%v, a match is readable: %v", i, op, ok, idx >= 0)
			}
			justGot = -1
			if ok {
				if v != queue[idx] {
					return fmt.Errorf("step %d %+v: Pick returned item %d, the first match is %d", i, op, v, queue[idx])
				}
				queue = append(queue[:idx:idx], queue[idx+1:]...)
				if err := deliver(i, op, v); err != nil {
					return err
				}
				stats["pick"]++
			}
		case "revert":
			// a consumer puts back the item it has just taken: it must be the next
			// one delivered
			if justGot < 0 {
				continue
			}
			id := justGot
			justGot = -1
			b.Revert(id, cycle)
			delete(delivered, id)
			deliveredOrder = deliveredOrder[:len(deliveredOrder)-1]
			delete(addedAt, id)
			stats["revert"]++
			queue = append([]int{id}, queue...)
			// whatever is delivered next (now, or after the bus is connected for
			// the following cycles) has to be the reverted item
			v, ok := b.Get()
			for k := 0; !ok && k < 2; k++ {
				cycle++
				b.Connect(cycle)
				connect()
				v, ok = b.Get()
			}
			if !ok || v != id {
				return fmt.Errorf("step %d %+v: after reverting item %d the next delivery is %d (present %v)", i, op, id, v, ok)
			}
			queue = queue[1:]
			if err := deliver(i, op, v); err != nil {
				return err
			}
		case "dellast":
			b.DeleteLast()
			if len(buffer) > 0 {
				id := buffer[len(buffer)-1].id
				buffer = buffer[:len(buffer)-1]
				delivered[id] = true // withdrawn by its producer: never delivered
				stats["dellast"]++
			}
			justGot = -1
		case "clean":
			b.Clean()
			for _, it := range buffer {
				delivered[it.id] = true
			}
			for _, id := range queue {
				delivered[id] = true
			}
			buffer, queue = nil, nil
			if !b.IsEmpty() || b.CanGet() {
				return fmt.Errorf("step %d %+v: the bus is not empty after Clean", i, op)
			}
			justGot = -1
		}
		if err := observers(i, op); err != nil {
			return err
		}
	}
	// drain: everything still inside comes out exactly once and in order
	for k := 0; k < 4*(c.In+c.Out)+8 && (len(queue) > 0 || len(buffer) > 0); k++ {
		cycle++
		b.Connect(cycle)
		connect()
		for {
			v, ok := b.Get()
			if !ok {
				if len(queue) > 0 {
					return fmt.Errorf("drain: item %d is lost", queue[0])
				}
				break
			}
			if len(queue) == 0 || v != queue[0] {
				return fmt.Errorf("drain: Get returned %d, model queue %v", v, queue)
			}
			queue = queue[1:]
			if err := deliver(len(c.Ops), busOp{Op: "drain"}, v); err != nil {
				return err
			}
		}
	}
	if len(queue) > 0 || len(buffer) > 0 {
		return fmt.Errorf("drain: items %v %v never came out", queue, buffer)
	}
	for id := 1; id < next; id++ {
		if !delivered[id] {
			return fmt.Errorf("item %d was never delivered", id)
		}
	}
	// order of delivery: increasing ids, except where Pick took a later match
	return nil
}

// runSimple drives comp.SimpleBus and the two-slot latch model. A cycle is one
// "add (when CanAdd) then get".
func runSimple(c busCase, stats map[string]int) (err error) {
	defer func() {
		if r := recover(); r != nil {
			err = fmt.Errorf("Go panic: %v", r)
		}
	}()
	b := &comp.SimpleBus[int]{}
	pending, current := 0, 0
	next := 1
	addedAtGet := map[int]int{}
	gets := 0
	var out []int
	for i, op := range c.Ops {
		switch op.Op {
		case "add":
			if got, want := b.CanAdd(), pending == 0; got != want {
				return fmt.Errorf("step %d: CanAdd %v want %v", i, got, want)
			}
			if !b.CanAdd() {
				stats["backpressure"]++
				continue
			}
			id := next
			next++
			b.Add(id)
			pending = id
			addedAtGet[id] = gets
		case "get", "tick":
			v, ok := b.Get()
			gets++
			if ok != (current != 0) || (ok && v != current) {
				return fmt.Errorf("step %d: Get = %d,%v want %d,%v", i, v, ok, current, current != 0)
			}
			if ok {
				if gets-addedAtGet[v] < 2 {
					return fmt.Errorf("step %d: item %d delivered by the first Get after its Add (same cycle)", i, v)
				}
				out = append(out, v)
				stats["delivered"]++
			}
			current, pending = pending, 0
		case "clean":
			if op.Arg%2 == 0 {
				b.Clean()
			} else {
				b.Flush()
			}
			pending, current = 0, 0
			if !b.IsEmpty() {
				return fmt.Errorf("step %d: not empty after Clean/Flush", i)
			}
		}
		if got, want := b.IsEmpty(), pending == 0 && current == 0; got != want {
			return fmt.Errorf("step %d %+v: IsEmpty %v want %v", i, op, got, want)
		}
	}
	for k := 1; k < len(out); k++ {
		if out[k] <= out[k-1] {
			return fmt.Errorf("delivery order %v is not the insertion order", out)
		}
	}
	return nil
}

// runQueue drives comp.Queue: iterator order is insertion order, removal
// during iteration is safe.
func runQueue(ops []busOp) (err error) {
	defer func() {
		if r := recover(); r != nil {
			err = fmt.Errorf("Go panic: %v", r)
		}
	}()
	q := comp.NewQueue[int](4)
	var model []int
	next := 1
	for i, op := range ops {
		switch op.Op {
		case "add":
			q.Push(next)
			model = append(model, next)
			next++
		case "pick", "get":
			// iterate, removing the items with the drawn parity *during* the
			// iteration, as the control units do with their pending instructions:
			// every element present at the start must still be visited, in order
			var seen []int
			var keep []int
			var e0 *list.Element
			for e := range q.Iterator() {
				v := q.Value(e)
				seen = append(seen, v)
				if v%2 == op.Arg%2 {
					q.Remove(e)
				} else {
					keep = append(keep, v)
				}
				e0 = e
			}
			_ = e0
			if len(seen) != len(model) {
				return fmt.Errorf("step %d: the iterator visits %v while elements are removed during the iteration, the queue held %v", i, seen, model)
			}
			for k := range seen {
				if seen[k] != model[k] {
					return fmt.Errorf("step %d: iterator yields %v, model %v", i, seen, model)
				}
			}
			model = keep
		}
		if q.Length() != len(model) || q.IsFull() != (len(model) >= 4) {
			return fmt.Errorf("step %d: Length %d IsFull %v, model %v", i, q.Length(), q.IsFull(), model)
		}
	}
	return nil
}

func runBus(c busCase, stats map[string]int) error {
	switch c.Kind {
	case "simple":
		return runSimple(c, stats)
	case "queue":
		return runQueue(c.Ops)
	case "queueiterate":
		return nil // a schedule sample: re-run the job (TestC14QueueIterate)
	}
	return runBuffered(c, stats)
}

func init() {
	hx.Register("bus", func(raw json.RawMessage) error {
		var c busCase
		if err := json.Unmarshal(raw, &c); err != nil {
			return err
		}
		return runBus(c, map[string]int{})
	})
}

var busOpNames = []string{"add", "add", "add", "tick", "tick", "get", "get", "pick", "revert", "dellast", "clean", "connect", "connectearly"}

func TestC14Buses(t *testing.T) {
	h := hx.Begin(t, "C14", "random")
	rapid.Check(t, func(rt *rapid.T) {
		c := busCase{Kind: rapid.SampledFrom([]string{"buffered", "buffered", "buffered", "simple", "queue"}).Draw(rt, "kind")}
		c.In = rapid.IntRange(1, 4).Draw(rt, "in")
		c.Out = rapid.IntRange(1, 4).Draw(rt, "out")
		n := rapid.IntRange(1, 60).Draw(rt, "nops")
		for i := 0; i < n; i++ {
			c.Ops = append(c.Ops, busOp{Op: rapid.SampledFrom(busOpNames).Draw(rt, "op"), Arg: rapid.IntRange(0, 3).Draw(rt, "arg")})
		}
		stats := map[string]int{}
		err := runBus(c, stats)
		h.Eval(hx.Hash(c), stats["backpressure"] > 0 && stats["delivered"] >= 3, "kind:"+c.Kind)
		h.Sample(c)
		if err != nil {
			h.Fail("bus", c, len(c.Ops), err.Error())
			rt.Fatalf("%v", err)
		}
	})
}

// TestC14Exhaustive enumerates every action sequence of length <= depth for
// the buffered bus with capacities 1..2 and for the simple bus.
func TestC14Exhaustive(t *testing.T) {
	h := hx.Begin(t, "C14", "exhaustive")
	depth := h.Env.Count
	if depth == 0 {
		depth = 7
	}
	acts := []busOp{{Op: "add"}, {Op: "tick"}, {Op: "get"}, {Op: "pick", Arg: 0}, {Op: "pick", Arg: 1}, {Op: "revert"}, {Op: "dellast"}, {Op: "clean"}, {Op: "connect"}}
	var n, nt int64
	type geo struct {
		kind    string
		in, out int
	}
	geos := []geo{{"buffered", 1, 1}, {"buffered", 1, 2}, {"buffered", 2, 1}, {"buffered", 2, 2}, {"simple", 0, 0}}
	failed := false
	for gi, g := range geos {
		if gi%h.Env.Shards != h.Env.Shard {
			continue
		}
		ops := make([]busOp, 0, depth)
		var rec func(d int) bool
		rec = func(d int) bool {
			if d > 0 {
				c := busCase{Kind: g.kind, In: g.in, Out: g.out, Ops: ops}
				stats := map[string]int{}
				n++
				if err := runBus(c, stats); err != nil {
					cc := c
					cc.Ops = append([]busOp(nil), ops...)
					h.Fail("bus", cc, len(ops), err.Error())
					t.Errorf("%v", err)
					return false
				}
				if stats["backpressure"] > 0 && stats["delivered"] >= 3 {
					nt++
				}
				if n == 10 || n == 5000 {
					cc := c
					cc.Ops = append([]busOp(nil), ops...)
					h.Sample(cc)
				}
			}
			if d == depth {
				return true
			}
			for _, a := range acts {
				if g.kind == "simple" && (a.Op == "pick" || a.Op == "revert" || a.Op == "dellast" || a.Op == "tick" || a.Op == "connect") {
					continue
				}
				ops = append(ops, a)
				ok := rec(d + 1)
				ops = ops[:len(ops)-1]
				if !ok {
					return false
				}
			}
			return true
		}
		if !rec(0) {
			failed = true
			break
		}
	}
	if !failed {
		h.Exhaustive()
	}
	h.Evals(n)
	h.NontrivialBulk(nt)
}

// TestC14QueueIterate samples goroutine schedules of the queue iterator: the
// control units remove every element they are handed while the iterator's
// producer goroutine is still walking the list. Every element present at the
// start must be visited, in order, whatever the interleaving.
func TestC14QueueIterate(t *testing.T) { queueIterate(t, "C14") }

// TestC08QueueIterate is the same schedule sampling under C08 (the queue
// iterator is one of the two goroutines inside the simulator).
func TestC08QueueIterate(t *testing.T) { queueIterate(t, "C08") }

func queueIterate(t *testing.T, prop string) {
	h := hx.Begin(t, prop, "queueiterate")
	n := h.Env.Count
	if n == 0 {
		n = 20000
	}
	// perturb the goroutine schedule: garbage collections stop the world, i.e.
	// preempt the iterator's producer goroutine at arbitrary instructions
	var stop atomic.Bool
	defer stop.Store(true)
	for g := 0; g < 3; g++ {
		go func() {
			for !stop.Load() {
				_ = make([]byte, 1<<16)
				runtime.GC()
			}
		}()
	}
	var nt int64
	for it := 0; it < n; it++ {
		size := 2 + it%9
		q := comp.NewQueue[int](size)
		for k := 0; k < size; k++ {
			q.Push(k)
		}
		var seen []int
		func() {
			defer func() {
				if r := recover(); r != nil {
					seen = append(seen, -1)
				}
			}()
			for e := range q.Iterator() {
				seen = append(seen, q.Value(e))
				if it%3 != 2 || q.Value(e)%2 == 0 {
					q.Remove(e)
				}
			}
		}()
		ok := len(seen) == size
		for k := 0; ok && k < size; k++ {
			ok = seen[k] == k
		}
		if !ok {
			c := busCase{Kind: "queueiterate", In: size, Ops: []busOp{{Op: "iterate-and-remove", Arg: it}}}
			msg := fmt.Sprintf("iteration %d: the iterator visited %v of a queue holding 0..%d while the consumer removed elements", it, seen, size-1)
			h.Evals(int64(it + 1))
			h.Fail("bus", c, size, msg)
			t.Fatalf("%s", msg)
		}
		nt++
	}
	h.Evals(int64(n))
	h.NontrivialBulk(nt / 9) // distinct shapes: sizes 2..10 x removal pattern; counted conservatively
	h.Sample(busCase{Kind: "queueiterate", In: 10, Ops: []busOp{{Op: "iterate-and-remove"}}})
}

func init() {
	hx.Register("race", func(raw json.RawMessage) error {
		return fmt.Errorf("re-run the check: a data race is observed by the Go race detector while the job runs (the report is in this file); the interleaving itself cannot be replayed")
	})
}
