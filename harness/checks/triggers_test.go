package checks

// Known-finding triggers: predicates over the *input* (program, initial state,
// configuration), evaluated on the reference trace, that characterise the root
// cause of a recorded finding. /verif/known-findings.txt decides which are
// active; a case matching an active trigger is not judged on that
// configuration (DESIGN.md section 3).

import (
	"os"
	"strings"
	"sync"

	"verif/findings"
	"verif/gen"
	"verif/ref"
	"verif/sim"
)

type trigger struct {
	name  string
	match func(a *analysis, cfg sim.Config) bool
}

var triggers = []trigger{
	{"store-miss-then-fill", trigStoreMissThenFill},
	{"shadow-error", func(a *analysis, cfg sim.Config) bool { return multiPar(cfg) && a.shadowError }},
	{"shadow-wild-access", func(a *analysis, cfg sim.Config) bool { return multiPar(cfg) && a.shadowWild }},
	{"shadow-store", func(a *analysis, cfg sim.Config) bool {
		if !multiPar(cfg) {
			return false
		}
		if is6(cfg.Variant) {
			return a.shadowStore
		}
		// MVP-7.x/8: a wrong-path store is aborted by the flush unless the branch
		// is slow enough for the store to finish first
		return a.shadowStoreSlow
	}},
	{"shadow-regwrite-slow-branch", func(a *analysis, cfg sim.Config) bool {
		return multiPar(cfg) && cfg.Variant == "mvp6-1" && a.shadowRegSlow
	}},
	{"shadow-load-pending", func(a *analysis, cfg sim.Config) bool { return multiPar(cfg) && is6(cfg.Variant) && a.shadowLoadLater }},
	{"shadow-waw-uncommitted", func(a *analysis, cfg sim.Config) bool {
		return multiPar(cfg) && cfg.Variant == "mvp6-2" && a.shadowWawUncommitted
	}},
	{"shadow-branch-commits", func(a *analysis, cfg sim.Config) bool {
		return multiPar(cfg) && cfg.Variant != "mvp6-0" && a.shadowBranchSlow
	}},
	{"shadow-ring-overflow", func(a *analysis, cfg sim.Config) bool {
		return multiPar(cfg) && renames(cfg.Variant) && a.shadowRingOverflow
	}},
	{"rename-order", func(a *analysis, cfg sim.Config) bool { return multiPar(cfg) && renames(cfg.Variant) && a.renameOrder }},
	{"mem-conflict-undrained", func(a *analysis, cfg sim.Config) bool {
		if !multiPar(cfg) {
			return false
		}
		if relaxF04(cfg) {
			return a.memConflictHot
		}
		return a.memConflict
	}},
	{"l3-overflow-multicore", func(a *analysis, cfg sim.Config) bool {
		return multiPar(cfg) && cfg.Variant == "mvp8-0" && a.l3Lines >= 32
	}},
	{"l3-line-store-sharing", func(a *analysis, cfg sim.Config) bool {
		return multiPar(cfg) && cfg.Variant == "mvp8-0" && a.l3StoreShared
	}},
	{"mvp60-memory-parallel", func(a *analysis, cfg sim.Config) bool {
		if !(multiPar(cfg) && cfg.Variant == "mvp6-0") {
			return false
		}
		if os.Getenv("VERIF_STRICT_F05") != "" {
			return a.anyMem // development aid: the conservative predicate
		}
		return a.memThenFlush
	}},
}

// relaxF04: configurations on which conflicting accesses that both hit
// resident lines, with nothing possibly missing in flight since the last drain,
// are judged: MVP-6.1..6.3 and 7.0 at parallelism 2 order such pairs (campaigns
// of 16 seeds x 2 000-2 500 PAIR and memory programs were silent there).
func relaxF04(cfg sim.Config) bool {
	if os.Getenv("VERIF_STRICT_F04") != "" {
		return false // development aid: the conservative predicate everywhere
	}
	if cfg.Par != 2 {
		return false
	}
	switch cfg.Variant {
	case "mvp6-1", "mvp6-2", "mvp6-3", "mvp7-0":
		return true
	}
	return false
}

func is6(v string) bool { return strings.HasPrefix(v, "mvp6") }

func renames(v string) bool {
	return v == "mvp6-3" || strings.HasPrefix(v, "mvp7") || strings.HasPrefix(v, "mvp8")
}

// multiPar: a multi-issue variant at parallelism >= 2.
func multiPar(cfg sim.Config) bool { return sim.IsMulti(cfg.Variant) && cfg.Par >= 2 }

// analysis holds the configuration-independent facts about a case that the
// triggers consult; it is computed once per case from the reference trace.
type analysis struct {
	c *gen.Case
	r *ref.Result

	anyMem bool
	// a load or store followed, anywhere later in the run, by a taken conditional
	// branch or by a jump: MVP-6.0's flush resets a unit that may still be
	// running the older access
	memThenFlush bool
	// a value read from memory reaches a branch operand, an address, a jump base
	// or a divisor: a wrong loaded value could then change the path, the
	// addresses or raise an error
	loadFeedsControl bool
	l3Lines          int  // distinct 128-byte lines the run touches
	l3StoreShared    bool // a 128-byte line is stored to and touched by another memory instruction
	storeMissFill    bool // F01 predicate (variant-independent part)
	// ... and the store is not the first possibly-missing store of the run: a
	// write unit may still be busy with an earlier one
	storeMissFillHot bool
	shadowError      bool // a wrong path reaches a division by zero
	shadowWild       bool // a wrong path accesses an address outside memory or misaligned
	shadowStore      bool // a wrong path holds an in-bounds store
	shadowStoreSlow  bool // ... and the branch is slow
	shadowRegSlow    bool // a slow taken branch has a register write in its shadow
	shadowLoadLater  bool // a wrong-path load touches a line that is loaded again later
	renameOrder      bool // WAW/WAR behind a slow instruction (see below)
	// a slow taken branch with a conditional branch on its wrong path: the
	// younger branch resolves first and commits speculative state
	shadowBranchSlow bool
	// the wrong path of a slow taken branch writes one register so often (>= 9
	// times) that the 10-slot rename ring loses the older uncommitted write the
	// rollback has to restore
	shadowRingOverflow bool
	// a slow taken branch whose wrong path writes a register that has an
	// uncommitted older write (conservatively: written anywhere earlier in the run)
	shadowWawUncommitted bool
	memConflict          bool // same-line conflicting accesses without a drain in between
	// ... at least one of them possibly missing the cache, or issued while an
	// earlier possibly-missing access may still be in flight (not "calm")
	memConflictHot bool
}

const shadowDepth = 24

// analyse computes the trigger facts. storeSlow selects the MVP-6.x notion of
// "slow": there a store that may miss the cache keeps a write unit busy for the
// memory latency, the write bus backs up and any instruction — a branch
// included — can starve in its execute unit while younger ones overtake it, so
// every instruction after such a store (until the next drain) counts as slow.
// loadSlow selects the notion for parallelism >= 3: the write bus takes two
// results per cycle, so the third execute unit starves whenever the first two
// deliver in the same cycle — which happens once a multi-cycle instruction (a
// load) has let a backlog build up; there every instruction after a load (until
// the next drain) counts as slow. prefSlow selects the MVP-7.1/8 notion: the
// control unit assigns loads and stores to the core that holds the line and a
// unit picks the first instruction it may take, so a memory instruction can
// wait on the bus for its (busy) core while younger instructions overtake it:
// there every store reads its registers late, like a load.
//
// "slow" instruction: a load, or an instruction reading a register whose value
// is load-tainted (written by a slow instruction). Such an instruction can
// still be in flight while younger independent instructions complete; all the
// overtaking findings need one.
//
// "drain": a taken conditional branch, or a jump executed for the first time
// (it misses the branch target buffer). On MVP-6.1 and later the flush
// completes every older instruction before the redirect.
func analyse(c *gen.Case, r *ref.Result, storeSlow, loadSlow, prefSlow bool) *analysis {
	a := &analysis{c: c, r: r}
	// a conditional branch taken to the next instruction is predicted correctly:
	// no flush, no drain, no wrong path — for this analysis it is not taken
	tr := append([]ref.Step(nil), r.Trace...)
	for i := range tr {
		if tr[i].CondBr && tr[i].Taken && tr[i].Next == tr[i].Pc+4 {
			tr[i].Taken = false
		}
	}
	// --- F01
	{
		loaded := map[int32]bool{}
		missStored := map[int32]bool{}
		l3 := map[int32]bool{}
		hotStored := map[int32]bool{}
		sawMissStore := false
		for _, s := range tr {
			line := s.Addr / 64
			if s.Load {
				if missStored[line] {
					a.storeMissFill = true
				}
				if hotStored[line] {
					a.storeMissFillHot = true
				}
				loaded[line] = true
			}
			if s.Store && !(loaded[line] && len(loaded) <= 16) {
				missStored[line] = true
				// a store miss is visible as soon as an idle write unit takes it; it
				// waits on the write bus — invisible to a fill — only while the write
				// units are busy with earlier store misses
				if sawMissStore {
					hotStored[line] = true
				}
				sawMissStore = true
			}
			if s.Load || s.Store {
				a.anyMem = true
				l3[s.Addr/128] = true
			}
		}
		a.l3Lines = len(l3)
		cnt := map[int32]int{}
		st := map[int32]bool{}
		for _, s := range tr {
			if s.Load || s.Store {
				cnt[s.Addr/128]++
				if s.Store {
					st[s.Addr/128] = true
				}
			}
		}
		for l := range st {
			if cnt[l] >= 2 {
				a.l3StoreShared = true
			}
		}
	}
	// --- does a loaded value reach control, an address or a divisor?
	{
		var fromLoad [32]bool
		for _, s := range tr {
			in := c.Prog.Ins[s.Idx]
			t := false
			for _, x := range s.Reads {
				if x != 0 && fromLoad[x] {
					t = true
				}
			}
			if t {
				switch {
				case s.CondBr, in.Op == "jalr", in.Op == "div", in.Op == "rem":
					a.loadFeedsControl = true
				case s.Load || s.Store:
					if in.Rs1 != 0 && fromLoad[in.Rs1] {
						a.loadFeedsControl = true
					}
				}
			}
			if s.Rd > 0 {
				fromLoad[s.Rd] = s.Load || t
			}
		}
	}
	// --- jumps that may be known to the branch target buffer before their
	// first architectural execution: a jump on the wrong path of a taken
	// conditional branch can execute (and be learned) before the branch
	// resolves; the flush squashes it but not the buffer entry. A jump the buffer
	// does not know yet asks for a flush itself and nothing younger is fetched
	// (the wrong path ends there); a known one redirects the fetch and the wrong
	// path goes on at its target. Every taken branch is treated as slow here.
	// firstExec: first architectural execution of a jump (trace step); specAt:
	// earliest taken branch (trace step) whose wrong path reaches it.
	firstExec := map[int]int{}
	specAt := map[int]int{}
	for i, s := range tr {
		if s.Jump {
			if _, ok := firstExec[s.Idx]; !ok {
				firstExec[s.Idx] = i
			}
		}
	}
	knownAt := func(idx, i int) bool {
		if f, ok := firstExec[idx]; ok && f < i {
			return true
		}
		if f, ok := specAt[idx]; ok && f < i {
			return true
		}
		return false
	}
	{
		any := false
		for _, s := range tr {
			if s.CondBr && s.Taken {
				any = true
			}
		}
		if any {
			m := ref.NewMachine(&c.Prog, c.Init())
			for i, s := range tr {
				if s.CondBr && s.Taken {
					w := m.Clone()
					w.Pc = s.Pc
					for k := 0; k < shadowDepth+1; k++ {
						idx := int(w.Pc / 4)
						if w.Pc < 0 || idx >= len(c.Prog.Ins) {
							break
						}
						in := c.Prog.Ins[idx]
						if k > 0 && in.IsJump() {
							known := knownAt(idx, i)
							if f, ok := specAt[idx]; !ok || i < f {
								specAt[idx] = i
							}
							if !known {
								break
							}
						}
						if k > 0 && in.Op == "ret" {
							break
						}
						if _, ok := w.Step(!in.IsJump()); !ok { // conditional branches fall through, jumps are followed
							break
						}
					}
				}
				if _, ok := m.Step(false); !ok {
					break
				}
			}
		}
	}
	// --- slow / taint, rename order, memory conflicts
	var tainted [32]bool
	slow := make([]bool, len(tr))
	type wr struct {
		at        int
		slow, set bool
	}
	var lastW [32]wr
	var readSince [32]bool
	var slowReaders [32]bool // a slow instruction (loads included: a load re-reads its base while it waits for a pending line) read the register since the last drain
	type acc struct {
		line     int32
		store    bool
		load     bool
		id       int
		resident bool // the line was surely resident when the access was issued
	}
	var accs []acc
	dep := map[int]map[int]bool{} // reg -> ids of loads its value depends on
	brSlowReaders := map[int][32]bool{}
	sinceStoreMiss := false
	sinceLoad := false
	calm := true // no possibly-missing access since the last drain
	jumpSeen := map[int]bool{}
	sawMem := false
	residentBefore := map[int32]bool{}
	loadedLines := map[int32]bool{}
	brUncommitted := map[int][32]bool{}
	var sinceBr [32]bool
	for i, s := range tr {
		isSlow := s.Load
		src := map[int]bool{}
		for _, x := range s.Reads {
			if x != 0 && tainted[x] {
				isSlow = true
			}
			for id := range dep[x] {
				src[id] = true
			}
		}
		if storeSlow && sinceStoreMiss {
			isSlow = true
		}
		if loadSlow && sinceLoad {
			isSlow = true
		}
		if s.Load {
			sinceLoad = true
		}
		slow[i] = isSlow
		if s.Load {
			loadedLines[s.Addr/64] = true
		}
		if s.Store && !(loadedLines[s.Addr/64] && len(loadedLines) <= 16) {
			sinceStoreMiss = true
		}
		// memory conflicts
		if s.Load || s.Store {
			line := s.Addr / 64
			for _, o := range accs {
				if o.line == line && (o.store || s.Store) {
					if o.load && src[o.id] {
						continue // ordered by a register dependence on the older load
					}
					a.memConflict = true
					if !calm || !o.resident || !(loadedLines[line] && len(loadedLines) <= 16) {
						a.memConflictHot = true
					}
				}
			}
			res := residentBefore[line] && len(residentBefore) <= 16
			accs = append(accs, acc{line, s.Store, s.Load, i, res})
			if !res {
				calm = false
			}
			if s.Load {
				residentBefore[line] = true
			}
		}
		// rename order (b): a younger writer of a register a slow instruction reads
		if s.Rd > 0 && slowReaders[s.Rd] {
			a.renameOrder = true
		}
		for _, x := range s.Reads {
			if x != 0 {
				readSince[x] = true
				if isSlow || (prefSlow && s.Store) {
					slowReaders[x] = true
				}
			}
		}
		if s.Rd > 0 {
			// rename order (a): WAW with no reader in between and a slow first writer
			if w := lastW[s.Rd]; w.set && !readSince[s.Rd] && w.slow {
				a.renameOrder = true
			}
			lastW[s.Rd] = wr{i, isSlow, true}
			readSince[s.Rd] = false
			tainted[s.Rd] = isSlow
			nd := map[int]bool{}
			for id := range src {
				nd[id] = true
			}
			if s.Load {
				nd[i] = true
			}
			dep[s.Rd] = nd
		}
		if s.Rd > 0 {
			sinceBr[s.Rd] = true
		}
		if s.CondBr && s.Taken {
			// No point of the run leaves the transaction map surely clean: a
			// branch commits or rolls back what has arrived, and a write issued just
			// before it arrives later. So every register written earlier in the run
			// may have an uncommitted write.
			brUncommitted[i] = sinceBr
		}
		firstJump := false
		specKnown := false
		if f, ok := specAt[s.Idx]; ok && f < i {
			specKnown = true // executed on a squashed wrong path before: the buffer knows it
		}
		if s.Jump && !jumpSeen[s.Idx] && !specKnown && os.Getenv("VERIF_NOJUMPDRAIN") == "" {
			// a jump met for the first time misses the branch target buffer and
			// flushes like a mispredicted branch (older instructions complete first)
			jumpSeen[s.Idx] = true
			firstJump = true
		}
		if sawMem && ((s.CondBr && s.Taken) || s.Jump) {
			// any jump: a known one can have left the 4-entry branch target buffer
			// again, a jalr can return elsewhere than predicted
			a.memThenFlush = true
		}
		if s.Load || s.Store {
			sawMem = true
		}
		if firstJump && !(s.CondBr && s.Taken) {
			sinceStoreMiss = false
			sinceLoad = false
			calm = true
			accs = accs[:0]
			lastW = [32]wr{}
			slowReaders = [32]bool{}
		}
		if s.CondBr && s.Taken {
			// the registers slow in-flight instructions (the branch included) still
			// have to read when the wrong path starts
			brSlowReaders[i] = slowReaders
			// drain
			sinceStoreMiss = false
			sinceLoad = false
			calm = true
			accs = accs[:0]
			lastW = [32]wr{}
			slowReaders = [32]bool{}
		}
	}
	// --- the code behind a defined fault (division by zero, undefined label):
	// it is never executed architecturally, but the pipeline runs ahead into it
	// while the faulting instruction waits for an operand — the same situation as
	// the wrong path of a slow branch
	if r.Err == ref.ErrDivZero || r.Err == ref.ErrLabel {
		fin := c.Prog.Ins[r.ErrIdx]
		slowFault := (storeSlow && sinceStoreMiss) || (loadSlow && sinceLoad)
		late := slowReaders
		for _, x := range fin.Reads() {
			if x != 0 {
				if tainted[x] {
					slowFault = true
				}
			}
		}
		if slowFault {
			for _, x := range fin.Reads() {
				if x != 0 {
					late[x] = true
				}
			}
		}
		m := ref.NewMachine(&c.Prog, c.Init())
		for range tr {
			if _, ok := m.Step(false); !ok {
				break
			}
		}
		memSize := int32(len(m.Mem))
		w := m.Clone()
		w.Pc = int32(4 * (r.ErrIdx + 1))
		for k := 0; k < shadowDepth; k++ {
			idx := int(w.Pc / 4)
			if w.Pc < 0 || idx >= len(c.Prog.Ins) {
				break
			}
			in := c.Prog.Ins[idx]
			if in.IsMem() {
				ea := w.Reg[in.Rs1] + in.Imm
				sz := ref.AccessSize(in.Op)
				if ea < 0 || ea+sz > memSize || ea%sz != 0 {
					a.shadowWild = true
					break
				}
				if in.IsStore() {
					a.shadowStore = true
					a.shadowStoreSlow = true
				}
			}
			if in.Writes() > 0 && late[in.Writes()] {
				a.renameOrder = true
			}
			if in.IsCondBr() && slowFault {
				a.shadowBranchSlow = true
			}
			if (in.IsCondBr() || in.IsJump()) && a.anyMem {
				// MVP-6.0: the flush of a control transfer behind the fault resets the
				// unit in which the faulting instruction still waits (finding F05)
				a.memThenFlush = true
			}
			if in.Op == "ret" || in.IsJump() {
				break
			}
			if _, ok := w.Step(true); !ok {
				break
			}
		}
	}
	// --- wrong paths of taken conditional branches
	hasTaken := false
	for _, s := range tr {
		if s.CondBr && s.Taken {
			hasTaken = true
		}
	}
	if hasTaken {
		m := ref.NewMachine(&c.Prog, c.Init())
		memSize := int32(len(m.Mem))
		// lines loaded at or after each step, to decide shadowLoadLater
		laterLoad := make([]map[int32]bool, len(tr)+1)
		laterLoad[len(tr)] = map[int32]bool{}
		cur := map[int32]bool{}
		for i := len(tr) - 1; i >= 0; i-- {
			if tr[i].Load {
				cur[tr[i].Addr/64] = true
			}
			// share maps between steps without loads
			if tr[i].Load {
				cp := make(map[int32]bool, len(cur))
				for k := range cur {
					cp[k] = true
				}
				laterLoad[i] = cp
			} else {
				laterLoad[i] = laterLoad[i+1]
			}
		}
		for i, s := range tr {
			if s.CondBr && s.Taken {
				w := m.Clone()
				sawShadowBranch := false
				var wrongWrites [32]int
				w.Pc = s.Pc // re-execute the branch as not taken, then follow the fall-through path
				for k := 0; k < shadowDepth+1; k++ {
					idx := int(w.Pc / 4)
					if w.Pc < 0 || idx >= len(c.Prog.Ins) {
						break
					}
					in := c.Prog.Ins[idx]
					if k > 0 {
						if in.IsMem() {
							ea := w.Reg[in.Rs1] + in.Imm
							sz := ref.AccessSize(in.Op)
							if ea < 0 || ea+sz > memSize || ea%sz != 0 {
								a.shadowWild = true
								break
							}
							if in.IsStore() {
								a.shadowStore = true
								if slow[i] {
									a.shadowStoreSlow = true
								}
							} else if laterLoad[i][ea/64] {
								a.shadowLoadLater = true
							}
						}
						if (in.Op == "div" || in.Op == "rem") && w.Reg[in.Rs2] == 0 {
							a.shadowError = true
							break
						}
						if in.Writes() > 0 && slow[i] {
							a.shadowRegSlow = true
							wrongWrites[in.Writes()]++
							if wrongWrites[in.Writes()] >= 9 {
								a.shadowRingOverflow = true
							}
						}
						if in.IsCondBr() && slow[i] {
							a.shadowBranchSlow = true
							sawShadowBranch = true
						}
						if in.Op == "ret" && slow[i] && (sawShadowBranch || recentCondBr(tr, i, 8) || pendingSlowCondBr(tr, slow, i)) {
							// a ret is held while a conditional branch is pending, but the
							// single flag is cleared by whichever branch resolves first: with
							// another conditional branch in flight around the slow one, a
							// wrong-path ret can be released and end the run
							a.shadowBranchSlow = true
						}
						if in.Writes() > 0 && slow[i] && brUncommitted[i][in.Writes()] {
							a.shadowWawUncommitted = true
						}
						if in.Writes() > 0 && brSlowReaders[i][in.Writes()] {
							// a wrong-path writer of a register a slow older instruction
							// has not read yet (renaming lets it through)
							a.renameOrder = true
						}
						if in.Op == "ret" || (in.IsJump() && !(slow[i] && knownAt(idx, i))) {
							// decode stops at a ret and stalls at an unconditional jump; a
							// jump the branch target buffer does not know asks for a flush
							// itself (nothing younger is fetched); behind a slow branch a
							// known jump redirects the fetch and the wrong path continues at
							// its target
							break
						}
					}
					if _, ok := w.Step(!in.IsJump()); !ok { // conditional branches fall through, jumps are followed
						break
					}
				}
			}
			if _, ok := m.Step(false); !ok {
				break
			}
		}
	}
	return a
}

// recentCondBr: a conditional branch among the n dynamic instructions before
// step i.
func recentCondBr(tr []ref.Step, i, n int) bool {
	for k := i - 1; k >= 0 && k >= i-n; k-- {
		if tr[k].CondBr {
			return true
		}
	}
	return false
}

// pendingSlowCondBr: an older conditional branch that was itself slow and not
// taken (no flush since), anywhere between the last taken branch and step i:
// it can still be waiting for its operand when the branch at step i is issued,
// and when it resolves it clears the single flag that holds a ret back.
func pendingSlowCondBr(tr []ref.Step, slow []bool, i int) bool {
	for k := i - 1; k >= 0; k-- {
		if tr[k].CondBr && tr[k].Taken {
			return false
		}
		if tr[k].CondBr && slow[k] {
			return true
		}
	}
	return false
}

func trigStoreMissThenFill(a *analysis, cfg sim.Config) bool {
	if !(cfg.Variant == "mvp4" || cfg.Variant == "mvp5" || is6(cfg.Variant)) {
		return false
	}
	if os.Getenv("VERIF_STRICT_F01") != "" {
		return a.storeMissFill // development aid: the conservative predicate
	}
	return a.storeMissFillHot
}

var (
	kfOnce sync.Once
	kf     *findings.File
)

func knownFindings() *findings.File {
	kfOnce.Do(func() {
		f, err := findings.Load()
		if err != nil {
			panic(err)
		}
		kf = f
	})
	return kf
}

// analysisCache avoids recomputing the analysis for every configuration.
type analysisCache struct {
	c *gen.Case
	a map[[3]bool]*analysis // keyed by the notion of slow of the configuration
}

var lastAnalysis analysisCache

// excludedBy returns the id of the first active finding of the property whose
// trigger matches the case on this configuration, or "".
func excludedBy(prop string, c *gen.Case, r *ref.Result, cfg sim.Config) string {
	f := knownFindings()
	if len(f.Findings) == 0 {
		return ""
	}
	if lastAnalysis.c != c {
		lastAnalysis = analysisCache{c: c, a: map[[3]bool]*analysis{}}
	}
	key := [3]bool{is6(cfg.Variant), cfg.Par >= 3, cfg.Variant == "mvp7-1" || cfg.Variant == "mvp8-0"}
	a := lastAnalysis.a[key]
	if a == nil {
		a = analyse(c, r, key[0], key[1], key[2])
		lastAnalysis.a[key] = a
	}
	for _, tr := range triggers {
		fd, ok := f.Active(tr.name)
		if !ok {
			continue
		}
		applies := false
		for _, p := range fd.Properties {
			if p == prop {
				applies = true
			}
		}
		if applies && prop == "C07" && fd.Class == "memory-value" && !a.loadFeedsControl {
			// C07 judges termination only: a finding that can only corrupt loaded
			// values and the final memory cannot make this run hang or crash,
			// because no loaded value reaches a branch, an address or a divisor
			continue
		}
		if applies && tr.match(a, cfg) {
			return fd.ID
		}
	}
	return ""
}
