package checks

// C13 — the line cache behaves as an LRU cache of its reference model; the
// generic key-value LRU obeys the same recency order.

import (
	"encoding/json"
	"fmt"
	"testing"

	kvcache "github.com/teivah/majorana/common/cache"
	"github.com/teivah/majorana/proc/comp"
	"pgregory.net/rapid"

	"verif/hx"
)

// lruOp is one operation of a history on comp.LRUCache.
type lruOp struct {
	Op   string `json:"op"` // push, pushwarn, get, write, evict, line, sub
	Line int    `json:"line"`
	Off  int    `json:"off,omitempty"`
	Val  int8   `json:"val,omitempty"`
	Len  int    `json:"len,omitempty"`
}

type lruCase struct {
	LineLen int     `json:"line_len"`
	Lines   int     `json:"lines"` // capacity in lines
	Ops     []lruOp `json:"ops"`
}

// lruModel is the reference: resident lines with their bytes, and two recency
// orders — one where Write refreshes recency and one where it does not (the
// statement does not say) — most recent first.
type lruModel struct {
	lineLen, cap int
	data         map[int][]int8
	orderA       []int // Write does not refresh
	orderB       []int // Write refreshes
}

func (m *lruModel) touch(order []int, l int) []int {
	out := []int{l}
	for _, x := range order {
		if x != l {
			out = append(out, x)
		}
	}
	return out
}

func (m *lruModel) remove(order []int, l int) []int {
	var out []int
	for _, x := range order {
		if x != l {
			out = append(out, x)
		}
	}
	return out
}

func fillPattern(line, n int, seed int8) []int8 {
	d := make([]int8, n)
	for i := range d {
		d[i] = int8(line*31+i*7) + seed
	}
	return d
}

// runLRU applies the history to the real cache and to the model; the first
// disagreement is returned. stats receives what the history exercised.
func runLRU(c lruCase, stats map[string]int) (err error) {
	defer func() {
		if r := recover(); r != nil {
			err = fmt.Errorf("Go panic: %v", r)
		}
	}()
	cache := comp.NewLRUCache(c.LineLen, c.LineLen*c.Lines)
	m := &lruModel{lineLen: c.LineLen, cap: c.Lines, data: map[int][]int8{}}
	base := func(l int) comp.AlignedAddress { return comp.AlignedAddress(l * c.LineLen) }
	check := func(step int, op lruOp) error {
		lines := cache.Lines()
		if len(lines) != len(m.orderA) {
			return fmt.Errorf("step %d %+v: %d resident lines, model has %d", step, op, len(lines), len(m.orderA))
		}
		if len(lines) > c.Lines {
			return fmt.Errorf("step %d %+v: %d resident lines exceed the capacity %d", step, op, len(lines), c.Lines)
		}
		seen := map[int]bool{}
		for _, ln := range lines {
			b := int(ln.Boundary[0])
			if b%c.LineLen != 0 || int(ln.Boundary[1])-b != c.LineLen || len(ln.Data) != c.LineLen {
				return fmt.Errorf("step %d %+v: malformed line %v", step, op, ln.Boundary)
			}
			l := b / c.LineLen
			if seen[l] {
				return fmt.Errorf("step %d %+v: line %d resident twice", step, op, l)
			}
			seen[l] = true
			want, ok := m.data[l]
			if !ok {
				return fmt.Errorf("step %d %+v: line %d resident, the model says absent", step, op, l)
			}
			for i := range want {
				if ln.Data[i] != want[i] {
					return fmt.Errorf("step %d %+v: line %d byte %d is %d, last written %d", step, op, l, i, ln.Data[i], want[i])
				}
			}
		}
		return nil
	}
	victimOK := func(step int, op lruOp, gotBase int, gotData []int8) error {
		va, vb := m.orderA[len(m.orderA)-1], m.orderB[len(m.orderB)-1]
		got := gotBase / c.LineLen
		if va == vb {
			if got != va {
				return fmt.Errorf("step %d %+v: reported victim is line %d, the least-recently-used line is %d", step, op, got, va)
			}
		} else {
			stats["victim-ambiguous-write-recency"]++
			if got != va && got != vb {
				return fmt.Errorf("step %d %+v: reported victim is line %d, the least-recently-used line is %d (or %d if writes refresh recency)", step, op, got, va, vb)
			}
		}
		want := m.data[got]
		for i := range want {
			if gotData[i] != want[i] {
				return fmt.Errorf("step %d %+v: reported victim line %d byte %d is %d, its contents are %d", step, op, got, i, gotData[i], want[i])
			}
		}
		// resynchronise both orders on the observed victim
		m.orderA, m.orderB = m.remove(m.orderA, got), m.remove(m.orderB, got)
		delete(m.data, got)
		return nil
	}
	for i, op := range c.Ops {
		_, resident := m.data[op.Line]
		switch op.Op {
		case "push", "pushwarn":
			if resident {
				continue // callers never insert a resident line
			}
			d := fillPattern(op.Line, c.LineLen, op.Val)
			m.data[op.Line] = append([]int8(nil), d...)
			m.orderA, m.orderB = m.touch(m.orderA, op.Line), m.touch(m.orderB, op.Line)
			full := len(m.orderA) > c.Lines
			if full {
				stats["insert-into-full"]++
			}
			if op.Op == "push" {
				ev := cache.PushLine(base(op.Line), d)
				if full != (ev != nil) {
					return fmt.Errorf("step %d %+v: eviction reported %v, cache was full: %v", i, op, ev != nil, full)
				}
				if ev != nil {
					if err := victimOK(i, op, int(ev.Boundary[0]), ev.Data); err != nil {
						return err
					}
				}
			} else {
				ev := cache.PushLineWithEvictionWarning(base(op.Line), d)
				if full != (ev != nil) {
					return fmt.Errorf("step %d %+v: eviction warning %v, cache was full: %v", i, op, ev != nil, full)
				}
				if ev != nil {
					vb := ev.Boundary[0]
					vd := append([]int8(nil), ev.Data...)
					// the caller removes the reported victim
					data, ok := cache.EvictCacheLine(vb)
					if !ok {
						return fmt.Errorf("step %d %+v: the reported victim %d is not resident", i, op, vb)
					}
					if err := victimOK(i, op, int(vb), vd); err != nil {
						return err
					}
					_ = data
				}
			}
		case "get":
			addr := int32(op.Line*c.LineLen + op.Off%c.LineLen)
			v, ok := cache.Get(addr)
			if ok != resident {
				return fmt.Errorf("step %d %+v: present=%v, a resident line covers the byte: %v", i, op, ok, resident)
			}
			if resident {
				if want := m.data[op.Line][op.Off%c.LineLen]; v != want {
					return fmt.Errorf("step %d %+v: read %d, last written %d", i, op, v, want)
				}
				if len(m.orderA) > 0 && m.orderA[0] != op.Line {
					stats["get-changes-order"]++
				}
				m.orderA, m.orderB = m.touch(m.orderA, op.Line), m.touch(m.orderB, op.Line)
			}
		case "write":
			if !resident {
				continue // Write panics on a non-resident address by contract
			}
			off := op.Off % c.LineLen
			n := 1 + op.Len%4
			if off+n > c.LineLen {
				n = c.LineLen - off
			}
			d := make([]int8, n)
			for k := range d {
				d[k] = op.Val + int8(k)
				m.data[op.Line][off+k] = d[k]
			}
			cache.Write(int32(op.Line*c.LineLen+off), d)
			m.orderB = m.touch(m.orderB, op.Line)
			stats["write"]++
		case "evict":
			data, ok := cache.EvictCacheLine(base(op.Line))
			if ok != resident {
				return fmt.Errorf("step %d %+v: evicted=%v, resident=%v", i, op, ok, resident)
			}
			if resident {
				for k, want := range m.data[op.Line] {
					if data[k] != want {
						return fmt.Errorf("step %d %+v: evicted line byte %d is %d, last written %d", i, op, k, data[k], want)
					}
				}
				m.orderA, m.orderB = m.remove(m.orderA, op.Line), m.remove(m.orderB, op.Line)
				delete(m.data, op.Line)
			}
		case "line":
			data, ok := cache.GetCacheLine(base(op.Line))
			if ok != resident {
				return fmt.Errorf("step %d %+v: GetCacheLine present=%v, resident=%v", i, op, ok, resident)
			}
			if resident {
				for k, want := range m.data[op.Line] {
					if data[k] != want {
						return fmt.Errorf("step %d %+v: GetCacheLine byte %d is %d, last written %d", i, op, k, data[k], want)
					}
				}
			}
		case "sub":
			// a smaller line inside a bigger one (L1 line inside an L3 line)
			sub := c.LineLen / 2
			if sub == 0 {
				continue
			}
			addr := int32(op.Line*c.LineLen + op.Off%c.LineLen)
			a, data, ok := cache.GetSubCacheLine([]int32{addr}, int32(sub))
			if ok != resident {
				return fmt.Errorf("step %d %+v: GetSubCacheLine present=%v, resident=%v", i, op, ok, resident)
			}
			if resident {
				wantBase := int(addr) - int(addr)%sub
				if int(a) != wantBase || len(data) != sub {
					return fmt.Errorf("step %d %+v: sub-line base %d len %d, want base %d len %d", i, op, a, len(data), wantBase, sub)
				}
				for k := 0; k < sub; k++ {
					if want := m.data[op.Line][wantBase-op.Line*c.LineLen+k]; data[k] != want {
						return fmt.Errorf("step %d %+v: sub-line byte %d is %d, last written %d", i, op, k, data[k], want)
					}
				}
			}
		}
		if err := check(i, op); err != nil {
			return err
		}
	}
	return nil
}

func init() {
	hx.Register("lru", func(raw json.RawMessage) error {
		var c lruCase
		if err := json.Unmarshal(raw, &c); err != nil {
			return err
		}
		return runLRU(c, map[string]int{})
	})
	hx.Register("kvlru", func(raw json.RawMessage) error {
		var c kvCase
		if err := json.Unmarshal(raw, &c); err != nil {
			return err
		}
		return runKV(c, map[string]int{})
	})
}

var lruGeometries = [][2]int{{2, 3}, {4, 4}, {64, 16}, {128, 32}, {8, 2}, {16, 1}}

func genLRU(rt *rapid.T) lruCase {
	g := rapid.SampledFrom(lruGeometries).Draw(rt, "geometry")
	c := lruCase{LineLen: g[0], Lines: g[1]}
	if rapid.IntRange(0, 4).Draw(rt, "drawn") == 0 {
		c.LineLen = 1 << rapid.IntRange(0, 7).Draw(rt, "linelog")
		c.Lines = rapid.IntRange(1, 20).Draw(rt, "lines")
	}
	universe := c.Lines + rapid.IntRange(1, 4).Draw(rt, "extra")
	n := rapid.IntRange(1, 60).Draw(rt, "nops")
	ops := []string{"push", "push", "pushwarn", "get", "get", "write", "evict", "line", "sub"}
	for i := 0; i < n; i++ {
		c.Ops = append(c.Ops, lruOp{
			Op:   rapid.SampledFrom(ops).Draw(rt, "op"),
			Line: rapid.IntRange(0, universe-1).Draw(rt, "line"),
			Off:  rapid.IntRange(0, 255).Draw(rt, "off"),
			Val:  int8(rapid.IntRange(-128, 127).Draw(rt, "val")),
			Len:  rapid.IntRange(0, 3).Draw(rt, "len"),
		})
	}
	return c
}

func TestC13LineCache(t *testing.T) {
	h := hx.Begin(t, "C13", "linecache")
	rapid.Check(t, func(rt *rapid.T) {
		c := genLRU(rt)
		stats := map[string]int{}
		err := runLRU(c, stats)
		nt := stats["insert-into-full"] > 0 && (stats["get-changes-order"] > 0 || stats["write"] > 0)
		var cls []string
		for k := range stats {
			cls = append(cls, k)
		}
		cls = append(cls, fmt.Sprintf("geometry:%dx%d", c.LineLen, c.Lines))
		h.Eval(hx.Hash(c), nt, cls...)
		h.Sample(c)
		if err != nil {
			h.Fail("lru", c, len(c.Ops), err.Error())
			rt.Fatalf("%v", err)
		}
	})
}

// TestC13Exhaustive enumerates every history of length <= depth over 4 lines
// in a 2-line cache (16 actions: push/get/write/evict x 4 lines).
func TestC13Exhaustive(t *testing.T) {
	h := hx.Begin(t, "C13", "exhaustive")
	depth := h.Env.Count
	if depth == 0 {
		depth = 5
	}
	kinds := []string{"push", "get", "write", "evict"}
	var actions []lruOp
	for _, k := range kinds {
		for l := 0; l < 4; l++ {
			actions = append(actions, lruOp{Op: k, Line: l, Off: 1, Val: int8(5 + l), Len: 1})
		}
	}
	var n, nt int64
	ops := make([]lruOp, 0, depth)
	var rec func(d int) bool
	rec = func(d int) bool {
		if d > 0 {
			// the first action is dealt to the shards
			c := lruCase{LineLen: 4, Lines: 2, Ops: ops}
			stats := map[string]int{}
			n++
			if err := runLRU(c, stats); err != nil {
				h.Evals(n)
				cc := lruCase{LineLen: 4, Lines: 2, Ops: append([]lruOp(nil), ops...)}
				h.Fail("lru", cc, len(ops), err.Error())
				t.Errorf("%v", err)
				return false
			}
			if stats["insert-into-full"] > 0 && (stats["get-changes-order"] > 0 || stats["write"] > 0) {
				nt++
			}
			if n == 1 || n == 1000 || n == 100000 {
				h.Sample(lruCase{LineLen: 4, Lines: 2, Ops: append([]lruOp(nil), ops...)})
			}
		}
		if d == depth {
			return true
		}
		for i, a := range actions {
			if d == 0 && i%h.Env.Shards != h.Env.Shard {
				continue
			}
			ops = append(ops, a)
			ok := rec(d + 1)
			ops = ops[:len(ops)-1]
			if !ok {
				return false
			}
		}
		return true
	}
	if rec(0) {
		h.Exhaustive()
	}
	h.Evals(n)
	h.NontrivialBulk(nt)
}

// ---- the generic key-value LRU (unit selection)

type kvOp struct {
	Op   string `json:"op"` // put, get, find
	Key  int    `json:"key"`
	Keys []int  `json:"keys,omitempty"`
}

type kvCase struct {
	Cap int    `json:"cap"`
	Ops []kvOp `json:"ops"`
}

func runKV(c kvCase, stats map[string]int) (err error) {
	defer func() {
		if r := recover(); r != nil {
			err = fmt.Errorf("Go panic: %v", r)
		}
	}()
	cache := kvcache.NewLRUCache[int, int](c.Cap)
	var order []int // least recently used first
	vals := map[int]int{}
	refresh := func(k int) {
		var out []int
		for _, x := range order {
			if x != k {
				out = append(out, x)
			}
		}
		order = append(out, k)
	}
	for i, op := range c.Ops {
		switch op.Op {
		case "put":
			if _, ok := vals[op.Key]; !ok && len(vals) == c.Cap {
				stats["evict"]++
				delete(vals, order[0])
				order = order[1:]
			}
			vals[op.Key] = i
			cache.Put(op.Key, i)
			refresh(op.Key)
		case "get":
			v, ok := cache.Get(op.Key)
			want, wok := vals[op.Key]
			if ok != wok || (ok && v != want) {
				return fmt.Errorf("step %d %+v: Get = %d,%v want %d,%v", i, op, v, ok, want, wok)
			}
			if ok {
				if order[len(order)-1] != op.Key {
					stats["get-changes-order"]++
				}
				refresh(op.Key)
			}
		case "find":
			k, ok := cache.Find(op.Keys)
			wantK, wok := 0, false
			for _, x := range order {
				for _, y := range op.Keys {
					if x == y && !wok {
						wantK, wok = x, true
					}
				}
			}
			if ok != wok || (ok && k != wantK) {
				return fmt.Errorf("step %d %+v: Find = %d,%v, the least-recently-used member is %d,%v (order %v)", i, op, k, ok, wantK, wok, order)
			}
			if ok {
				refresh(k)
				stats["find"]++
			}
		}
	}
	return nil
}

func TestC13KeyValue(t *testing.T) {
	h := hx.Begin(t, "C13", "keyvalue")
	rapid.Check(t, func(rt *rapid.T) {
		c := kvCase{Cap: rapid.IntRange(1, 5).Draw(rt, "cap")}
		n := rapid.IntRange(1, 40).Draw(rt, "nops")
		for i := 0; i < n; i++ {
			op := kvOp{Op: rapid.SampledFrom([]string{"put", "put", "get", "find"}).Draw(rt, "op"), Key: rapid.IntRange(0, 6).Draw(rt, "key")}
			if op.Op == "find" {
				op.Keys = rapid.SliceOfN(rapid.IntRange(0, 6), 0, 4).Draw(rt, "keys")
			}
			c.Ops = append(c.Ops, op)
		}
		stats := map[string]int{}
		err := runKV(c, stats)
		h.Eval(hx.Hash(c), stats["evict"] > 0 && (stats["get-changes-order"] > 0 || stats["find"] > 0))
		h.Sample(c)
		if err != nil {
			h.Fail("kvlru", c, len(c.Ops), err.Error())
			rt.Fatalf("%v", err)
		}
	})
}
