package checks

// Shared machinery of the processor-level checks: a generated program is run
// by the reference model and by real processor configurations.

import (
	"encoding/json"
	"fmt"
	"os"
	"sort"
	"strconv"
	"strings"
	"testing"

	"pgregory.net/rapid"

	"verif/gen"
	"verif/hx"
	"verif/ref"
	"verif/sim"
)

// progCase is the replayable form of a processor-level failure.
type progCase struct {
	Case   gen.Case   `json:"case"`
	Cfg    sim.Config `json:"cfg"`
	Oracle string     `json:"oracle"` // "diff": final state equals the reference; "term": terminates without panic
}

func caseSize(c *gen.Case) int {
	n := len(c.Prog.Ins) * 1000
	for _, r := range c.Regs {
		if r != 0 {
			n += 10
		}
	}
	if c.MemSeed != 0 {
		n += 5
	}
	n += c.MemSize / 64
	return n
}

// refRun runs the reference with tracing; ok=false when the case leaves the
// well-formed domain.
func refRun(c *gen.Case) (ref.Result, bool) {
	r := ref.Run(&c.Prog, c.Init(), ref.Options{MaxSteps: 20000, Trace: true})
	return r, r.Err == nil
}

// judgeDiff runs one configuration and compares with the reference.
func judgeDiff(c *gen.Case, cfg sim.Config, r *ref.Result) (string, sim.Outcome) {
	out := sim.Run(cfg, c.Prog.Text(), c.Init(), sim.BudgetFor(r.Steps), nil)
	return sim.Diff(out, *r), out
}

func init() {
	hx.Register("prog", func(raw json.RawMessage) error {
		var pc progCase
		if err := json.Unmarshal(raw, &pc); err != nil {
			return err
		}
		r, ok := refRun(&pc.Case)
		if pc.Oracle == "err" {
			return judgeDefinedError(&pc.Case, pc.Cfg, &r)
		}
		if !ok {
			return fmt.Errorf("replay case is outside the domain: %v", r.Err)
		}
		d, out := judgeDiff(&pc.Case, pc.Cfg, &r)
		switch pc.Oracle {
		case "term":
			if out.Kind == sim.Panic || out.Kind == sim.Budget || out.Kind == sim.Error {
				return fmt.Errorf("%s: %s", pc.Cfg, d)
			}
			return nil
		default:
			if d != "" {
				return fmt.Errorf("%s: %s", pc.Cfg, d)
			}
		}
		return nil
	})
}

// judgeDefinedError: the reference run reaches a defined error (division by
// zero, undefined label); the real run must report an error value — not ok,
// not a Go panic, not a hang.
func judgeDefinedError(c *gen.Case, cfg sim.Config, r *ref.Result) error {
	if r.Err != ref.ErrDivZero && r.Err != ref.ErrLabel {
		return fmt.Errorf("replay case does not reach a defined error: %v", r.Err)
	}
	out := sim.Run(cfg, c.Prog.Text(), c.Init(), sim.BudgetFor(r.Steps), nil)
	switch out.Kind {
	case sim.Error:
		return nil
	case sim.OK:
		return fmt.Errorf("%s: %v on the executed path but the run returned no error", cfg, r.Err)
	case sim.Panic:
		return fmt.Errorf("%s: %v on the executed path crashed the run: Go panic %s", cfg, r.Err, out.Err)
	case sim.Budget:
		return fmt.Errorf("%s: %v on the executed path: the run does not terminate within the budget", cfg, r.Err)
	}
	return fmt.Errorf("%s: %s %s", cfg, out.Kind, out.Err)
}

func profileByName(n string) gen.Profile {
	for _, p := range gen.AllProfiles {
		if strings.EqualFold(p.Name, n) {
			return p
		}
	}
	panic("unknown profile " + n)
}

// TestSurvey is a development aid, not a check: it runs VERIF_N programs of
// VERIF_PROFILE on every configuration without stopping at failures and prints
// a table of outcome signatures with one example each.
func TestSurvey(t *testing.T) {
	pn := os.Getenv("VERIF_PROFILE")
	if pn == "" {
		t.Skip("VERIF_PROFILE not set")
	}
	p := profileByName(pn)
	if v, err := strconv.Atoi(os.Getenv("VERIF_MAXLEN")); err == nil {
		p.MaxLen = v
	}
	n, _ := strconv.Atoi(os.Getenv("VERIF_N"))
	if n == 0 {
		n = 200
	}
	only := os.Getenv("VERIF_ONLY")
	type key struct{ cfg, sig string }
	counts := map[key]int{}
	total := map[string]int{}
	examples := map[key]string{}
	seen := 0
	rapid.Check(t, func(rt *rapid.T) {
		c := gen.Program(rt, p)
		r, ok := refRun(c)
		if !ok {
			counts[key{"ref", r.Err.Error()}]++
			return
		}
		seen++
		for _, cfg := range sim.AllConfigs() {
			if only != "" && !strings.Contains(cfg.String(), only) {
				continue
			}
			d, out := judgeDiff(c, cfg, &r)
			sig := "ok"
			if d != "" {
				sig = out.Kind
				if out.Kind == sim.OK {
					sig = "mismatch"
					if strings.Contains(d, "mem[") && !strings.Contains(d, " got ") {
						sig = "mismatch-mem"
					}
				}
				if out.Kind == sim.Panic {
					sig = "panic:" + firstN(stripDigits(out.Err), 44)
				}
			}
			k := key{cfg.String(), sig}
			counts[k]++
			total[cfg.String()]++
			if sig != "ok" {
				if old, ok := examples[k]; !ok || len(c.Text) < len(old)-200 {
					examples[k] = fmt.Sprintf("--- %s %s: %s\nregs=%v memsize=%d seed=%d\n%s", cfg, sig, d, nz(c.Regs), c.MemSize, c.MemSeed, c.Text)
				}
			}
		}
	})
	var keys []key
	for k := range counts {
		keys = append(keys, k)
	}
	sort.Slice(keys, func(i, j int) bool {
		if keys[i].cfg != keys[j].cfg {
			return keys[i].cfg < keys[j].cfg
		}
		return keys[i].sig < keys[j].sig
	})
	fmt.Printf("SURVEY profile=%s cases=%d\n", p.Name, seen)
	// compact: one row per (variant, signature), columns = parallelism
	type vk struct{ v, sig string }
	rows := map[vk][5]int{}
	var order []vk
	for _, k := range keys {
		if k.sig == "ok" && os.Getenv("VERIF_SHOWOK") == "" {
			continue
		}
		parts := strings.Split(k.cfg, "/p")
		par := 1
		if len(parts) == 2 {
			par, _ = strconv.Atoi(parts[1])
		}
		x := vk{parts[0], k.sig}
		row, ok := rows[x]
		if !ok {
			order = append(order, x)
		}
		row[par] = counts[k]
		rows[x] = row
	}
	for _, x := range order {
		r := rows[x]
		fmt.Printf("%-8s p1..4=%3d %3d %3d %3d  %s\n", x.v, r[1], r[2], r[3], r[4], x.sig)
	}
	if os.Getenv("VERIF_EXAMPLES") != "" {
		for _, k := range keys {
			if e, ok := examples[k]; ok {
				fmt.Println(e)
			}
		}
	}
}

func stripDigits(s string) string {
	return strings.Map(func(r rune) rune {
		if r >= '0' && r <= '9' {
			return -1
		}
		return r
	}, s)
}

func firstN(s string, n int) string {
	if len(s) > n {
		return s[:n]
	}
	return s
}

func nz(r [32]int32) string {
	var sb strings.Builder
	for i, v := range r {
		if v != 0 {
			fmt.Fprintf(&sb, "%s=%d ", ref.RegNames[i], v)
		}
	}
	return sb.String()
}
