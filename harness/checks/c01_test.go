package checks

// C01 — every processor variant computes the sequential architectural result.

import (
	"os"
	"strings"
	"testing"

	"pgregory.net/rapid"

	"verif/gen"
	"verif/hx"
	"verif/ref"
	"verif/sim"
)

// nontrivialC01: >= 5 executed instructions, >= 1 register written, and two
// adjacent independent instructions exist in the trace (so that a multi-issue
// variant can have two instructions in flight).
func nontrivialC01(r *ref.Result) bool {
	if r.Steps < 5 {
		return false
	}
	wrote, indep := false, false
	for i, s := range r.Trace {
		if s.Rd > 0 {
			wrote = true
		}
		if i > 0 {
			p := r.Trace[i-1]
			dep := false
			for _, x := range s.Reads {
				if x != 0 && x == p.Rd {
					dep = true
				}
			}
			if !dep && !(p.Rd > 0 && p.Rd == s.Rd) {
				indep = true
			}
		}
	}
	return wrote && indep
}

func devOnly(cfg sim.Config) bool {
	only := os.Getenv("VERIF_ONLY")
	return only != "" && !strings.Contains(cfg.String(), only)
}

// runAllConfigs judges the case on every configuration that no active
// known-finding trigger excludes; it returns after the first failure.
func runAllConfigs(h *hx.H, rt *rapid.T, c *gen.Case, r *ref.Result, prop string, cfgs []sim.Config) {
	for _, cfg := range cfgs {
		if devOnly(cfg) {
			continue
		}
		if f := excludedBy(prop, c, r, cfg); f != "" {
			h.Exclude(f)
			continue
		}
		h.Config(cfg.String())
		d, _ := judgeDiff(c, cfg, r)
		if sig := os.Getenv("VERIF_SIG"); sig != "" && !strings.Contains(d, sig) {
			d = "" // development aid: hunt one failure signature
		}
		if d != "" {
			pc := progCase{Case: *c, Cfg: cfg, Oracle: "diff"}
			h.Fail("prog", pc, caseSize(c), cfg.String()+": "+d)
			rt.Fatalf("%s: %s\n%s", cfg, d, c.Text)
		}
	}
}

func drawProfile(rt *rapid.T, ps []gen.Profile, weights []int) gen.Profile {
	total := 0
	for _, w := range weights {
		total += w
	}
	// rapid's integers are biased towards small values: spread the draw so
	// that the weights are the actual shares of the profiles
	x := int(gen.Mix(rapid.Uint64().Draw(rt, "profile")) % uint64(total))
	for i, w := range weights {
		if x < w {
			return ps[i]
		}
		x -= w
	}
	return ps[0]
}

func TestC01(t *testing.T) {
	h := hx.Begin(t, "C01", "mixed")
	maxLen := 60
	if h.Env.Tier == "thorough" {
		maxLen = 200
	}
	cfgs := sim.AllConfigs()
	rapid.Check(t, func(rt *rapid.T) {
		p := drawProfile(rt, []gen.Profile{gen.REG, gen.MEM, gen.SHADOW, gen.WALK, gen.OWNER}, []int{38, 30, 15, 9, 8})
		if rapid.IntRange(0, 9).Draw(rt, "long") == 0 {
			p.MaxLen = maxLen
		}
		c := gen.Program(rt, p)
		r, ok := refRun(c)
		if !ok {
			h.Skip()
			rt.Skip("reference run leaves the domain: ", r.Err)
		}
		h.Eval(hx.Hash(c.Text, c.Regs, c.MemSize, c.MemSeed), nontrivialC01(&r), "profile:"+p.Name, "exit:"+r.Exit)
		h.Sample(c)
		runAllConfigs(h, rt, c, &r, "C01", cfgs)
	})
}

// TestDevReg is a development aid: REG/PRESSURE programs only.
func TestDevReg(t *testing.T) {
	if os.Getenv("VERIF_ONLY") == "" {
		t.Skip()
	}
	h := hx.Begin(t, "C01", "devreg")
	cfgs := sim.AllConfigs()
	rapid.Check(t, func(rt *rapid.T) {
		p := drawProfile(rt, []gen.Profile{gen.REG, gen.PRESSURE}, []int{50, 50})
		c := gen.Program(rt, p)
		r, ok := refRun(c)
		if !ok {
			rt.Skip()
		}
		runAllConfigs(h, rt, c, &r, "C01", cfgs)
	})
}

// TestDevMem is a development aid: memory profiles only.
func TestDevMem(t *testing.T) {
	if os.Getenv("VERIF_ONLY") == "" {
		t.Skip()
	}
	h := hx.Begin(t, "C01", "devmem")
	cfgs := sim.AllConfigs()
	rapid.Check(t, func(rt *rapid.T) {
		p := drawProfile(rt, []gen.Profile{gen.MEM, gen.WALK, gen.SHADOW}, []int{50, 20, 30})
		if os.Getenv("VERIF_PROFILE") != "" {
			p = profileByName(os.Getenv("VERIF_PROFILE"))
		}
		if os.Getenv("VERIF_NOERR") != "" {
			p.ErrShadow = false
		}
		if os.Getenv("VERIF_NOOOB") != "" {
			p.OOBShadow = false
		}
		c := gen.Program(rt, p)
		r, ok := refRun(c)
		if !ok {
			rt.Skip()
		}
		runAllConfigs(h, rt, c, &r, "C01", cfgs)
	})
}
