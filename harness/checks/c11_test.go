package checks

// C11 — the assembler front end is total and resolves labels correctly.

import (
	"encoding/json"
	"fmt"
	"regexp"
	"strconv"
	"strings"
	"testing"

	"github.com/teivah/majorana/risc"
	"pgregory.net/rapid"

	"verif/gen"
	"verif/hx"
	"verif/ref"
)

type c11Case struct {
	Text string `json:"text"`
	// Want is set for programs rendered from an AST: the parse must succeed and
	// agree with it.
	Want *ref.Prog `json:"want,omitempty"`
}

func parseTotal(s string) (app risc.Application, err error, panicked any) {
	defer func() {
		if r := recover(); r != nil {
			panicked = r
		}
	}()
	app, err = risc.Parse(s)
	return
}

var (
	labelLineRe = regexp.MustCompile(`^[^\s#,():]+:$`)
	regIndex    = func() map[string]int {
		m := map[string]int{}
		for i, n := range ref.RegNames {
			m[n] = i
			m["$"+n] = i
		}
		return m
	}()
	mnemonicSet = func() map[string]bool {
		m := map[string]bool{}
		for _, x := range ref.Mnemonics {
			m[x] = true
		}
		return m
	}()
	decRe = regexp.MustCompile(`^[+-]?[0-9]+$`)
)

// lineKind classifies a source line by an independent line grammar:
// "blank", "comment", "label", "ins" or "other".
func lineKind(raw string) (kind, name string) {
	line := strings.TrimSpace(raw)
	if line == "" {
		return "blank", ""
	}
	if line[0] == '#' {
		return "comment", ""
	}
	if labelLineRe.MatchString(line) {
		return "label", line[:len(line)-1]
	}
	mn := line
	if i := strings.IndexByte(line, ' '); i >= 0 {
		mn = line[:i]
	}
	if mnemonicSet[strings.ToLower(mn)] {
		return "ins", strings.ToLower(mn)
	}
	return "other", ""
}

// zeroPadRe splits "[sign]digits[(reg)]".
var zeroPadRe = regexp.MustCompile(`^([+-]?)([0-9]+)(\s*\(.*)?$`)

func parseImm(s string) (int32, bool) {
	s = strings.TrimSpace(s)
	if !decRe.MatchString(s) {
		return 0, false
	}
	v, err := strconv.ParseInt(s, 10, 64)
	if err != nil || v < -1<<31 || v > 1<<31-1 {
		return 0, false
	}
	return int32(v), true
}

func parseReg(s string) (int, bool) {
	r, ok := regIndex[strings.TrimSpace(s)]
	return r, ok
}

// decodeLine is the independent decoder of one instruction line. ok=false
// means the line is outside the grammar this oracle is sure about (then the
// instruction is not judged).
func decodeLine(raw string) (in ref.Ins, ok bool) {
	line := strings.TrimSpace(raw)
	if i := strings.IndexByte(line, '#'); i >= 0 {
		line = strings.TrimSpace(line[:i])
	}
	mn, rest := line, ""
	if i := strings.IndexByte(line, ' '); i >= 0 {
		mn, rest = line[:i], strings.TrimSpace(line[i+1:])
	}
	op := strings.ToLower(mn)
	if !mnemonicSet[op] {
		return in, false
	}
	in.Op = op
	var parts []string
	if rest != "" {
		parts = strings.Split(rest, ",")
	}
	need := func(n int) bool { return len(parts) == n }
	offReg := func(s string) (int32, int, bool) {
		s = strings.TrimSpace(s)
		i := strings.IndexByte(s, '(')
		if i < 0 || !strings.HasSuffix(s, ")") || strings.Count(s, "(") != 1 || strings.Count(s, ")") != 1 {
			return 0, 0, false
		}
		imm, ok1 := parseImm(s[:i])
		r, ok2 := parseReg(s[i+1 : len(s)-1])
		return imm, r, ok1 && ok2
	}
	lab := func(s string) (string, bool) {
		s = strings.TrimSpace(s)
		return s, s != "" && !strings.ContainsAny(s, " \t#,():")
	}
	var o1, o2, o3 bool
	switch ref.Shape(op) {
	case ref.ShapeR:
		if !need(3) {
			return in, false
		}
		in.Rd, o1 = parseReg(parts[0])
		in.Rs1, o2 = parseReg(parts[1])
		in.Rs2, o3 = parseReg(parts[2])
		return in, o1 && o2 && o3
	case ref.ShapeI, ref.ShapeJalr:
		if !need(3) {
			return in, false
		}
		in.Rd, o1 = parseReg(parts[0])
		in.Rs1, o2 = parseReg(parts[1])
		in.Imm, o3 = parseImm(parts[2])
		return in, o1 && o2 && o3
	case ref.ShapeU:
		if !need(2) {
			return in, false
		}
		in.Rd, o1 = parseReg(parts[0])
		in.Imm, o2 = parseImm(parts[1])
		return in, o1 && o2
	case ref.ShapeMv:
		if !need(2) {
			return in, false
		}
		in.Rd, o1 = parseReg(parts[0])
		in.Rs1, o2 = parseReg(parts[1])
		return in, o1 && o2
	case ref.ShapeLoad:
		if !need(2) {
			return in, false
		}
		in.Rd, o1 = parseReg(parts[0])
		in.Imm, in.Rs1, o2 = offReg(parts[1])
		return in, o1 && o2
	case ref.ShapeStore:
		if op == "sh" {
			if !need(3) {
				return in, false
			}
			in.Rs2, o1 = parseReg(parts[0])
			in.Imm, o2 = parseImm(parts[1])
			in.Rs1, o3 = parseReg(parts[2])
			return in, o1 && o2 && o3
		}
		if !need(2) {
			return in, false
		}
		in.Rs2, o1 = parseReg(parts[0])
		in.Imm, in.Rs1, o2 = offReg(parts[1])
		return in, o1 && o2
	case ref.ShapeBr2:
		if !need(3) {
			return in, false
		}
		in.Rs1, o1 = parseReg(parts[0])
		in.Rs2, o2 = parseReg(parts[1])
		in.Label, o3 = lab(parts[2])
		return in, o1 && o2 && o3
	case ref.ShapeBr1:
		if !need(2) {
			return in, false
		}
		in.Rs1, o1 = parseReg(parts[0])
		in.Label, o2 = lab(parts[1])
		return in, o1 && o2
	case ref.ShapeJ:
		if !need(1) {
			return in, false
		}
		in.Label, o1 = lab(parts[0])
		return in, o1
	case ref.ShapeJal:
		if !need(2) {
			return in, false
		}
		in.Rd, o1 = parseReg(parts[0])
		in.Label, o2 = lab(parts[1])
		return in, o1 && o2
	case ref.ShapeNone:
		return in, rest == ""
	}
	return in, false
}

var typeNames = func() map[string]string {
	m := map[string]string{}
	for _, x := range ref.Mnemonics {
		m[x] = strings.ToUpper(x[:1]) + x[1:]
	}
	return m
}()

// probe establishes black-box that a decoded instruction is the AST
// instruction: type name, declared sets and one execution on a register file
// of distinct values.
func probe(r risc.InstructionRunner, in ref.Ins, idx int) error {
	if got := r.InstructionType().String(); got != typeNames[in.Op] {
		return fmt.Errorf("instruction %d (%s) decoded as %s", idx, in.Text(), got)
	}
	c := c02Case{Ins: in, A: 7919, B: -104729, Pc: int32(4 * idx), Tgt: 4 * 77, Mem: [4]int8{0x11, -0x7e, 0x33, -0x3c}}
	if (in.Op == "div" || in.Op == "rem") && (in.Rs2 == 0 || (in.Rs2 == in.Rs1 && in.Rs1 == 0)) {
		return nil
	}
	if err := c02JudgeRunner(r, c); err != nil {
		return fmt.Errorf("instruction %d: %v", idx, err)
	}
	return nil
}

// c11Judge is the whole oracle for one text.
func c11Judge(c c11Case) (err error, judged string) {
	app, perr, pan := parseTotal(c.Text)
	if pan != nil {
		return fmt.Errorf("Parse panicked: %v", pan), "panic"
	}
	if perr != nil {
		if c.Want != nil {
			return fmt.Errorf("a well-formed program was rejected: %v", perr), "rejected-valid"
		}
		return nil, "rejected"
	}
	// accepted text: independent line grammar
	var insLines []string
	labels := map[string][]int{}
	ambiguous := false
	for _, raw := range strings.Split(c.Text, "\n") {
		kind, name := lineKind(raw)
		switch kind {
		case "label":
			labels[name] = append(labels[name], 4*len(insLines))
		case "ins":
			insLines = append(insLines, raw)
		case "other":
			ambiguous = true
		}
	}
	if ambiguous {
		// the text was accepted although a line is outside the line grammar this
		// oracle is sure about (e.g. a label containing odd characters): only
		// totality is judged
		return nil, "accepted-ambiguous"
	}
	if len(app.Instructions) != len(insLines) {
		return fmt.Errorf("%d instruction lines but %d instructions", len(insLines), len(app.Instructions)), "count"
	}
	if len(app.Labels) != len(labels) {
		return fmt.Errorf("labels %v, the text defines %v", app.Labels, labels), "labels"
	}
	for name, addrs := range labels {
		got, ok := app.Labels[name]
		if !ok {
			return fmt.Errorf("label %q missing from %v", name, app.Labels), "labels"
		}
		found := false
		for _, a := range addrs { // a label defined twice may resolve to either definition
			if int32(a) == got {
				found = true
			}
		}
		if !found {
			return fmt.Errorf("label %q resolves to %d, the next instruction after it is at %v", name, got, addrs), "labels"
		}
	}
	for i, raw := range insLines {
		in, ok := decodeLine(raw)
		if !ok {
			continue
		}
		if perr := probe(app.Instructions[i], in, i); perr != nil {
			return fmt.Errorf("line %q: %v", strings.TrimSpace(raw), perr), "decode"
		}
	}
	if c.Want != nil {
		if len(app.Instructions) != len(c.Want.Ins) {
			return fmt.Errorf("%d instructions, the program has %d", len(app.Instructions), len(c.Want.Ins)), "count"
		}
		for i, in := range c.Want.Ins {
			if perr := probe(app.Instructions[i], in, i); perr != nil {
				return perr, "decode"
			}
		}
		if len(app.Labels) != len(c.Want.Labels) {
			return fmt.Errorf("labels %v want %v", app.Labels, c.Want.Labels), "labels"
		}
		for l, idx := range c.Want.Labels {
			if got, ok := app.Labels[l]; !ok || got != int32(4*idx) {
				return fmt.Errorf("label %q = %d (present %v), want %d", l, got, ok, 4*idx), "labels"
			}
		}
	}
	return nil, "accepted"
}

func init() {
	hx.Register("c11", func(raw json.RawMessage) error {
		var c c11Case
		if err := json.Unmarshal(raw, &c); err != nil {
			return err
		}
		err, _ := c11Judge(c)
		return err
	})
}

// ---- generators

var c11Profile = gen.Profile{
	Name: "C11", MinLen: 1, MaxLen: 40, PoolMin: 2, PoolMax: 8, MemSizes: []int{64, 256},
	W:        gen.Weights{Alu: 6, Div: 1, Load: 2, Store: 2, Branch: 2, Jump: 2, Call: 1, Loop: 1, Walk: 1, Nop: 1},
	TakenPct: 50, Hostile: true, OOBShadow: true, ErrShadow: true, ZeroRaPct: 15,
}

// format renders a program with drawn formatting: indentation, blank lines,
// comments, mnemonic case, $-registers, spacing around commas and parentheses.
func format(rt *rapid.T, p *ref.Prog, feats map[string]bool) string {
	at := map[int][]string{}
	for l, i := range p.Labels {
		at[i] = append(at[i], l)
	}
	var sb strings.Builder
	ws := func(label string) string {
		switch rapid.IntRange(0, 5).Draw(rt, label) {
		case 0:
			return ""
		case 1:
			feats["tab-indent"] = true
			return "\t"
		case 2:
			feats["tab-indent"] = true
			return "\t  "
		case 3:
			return "        "
		default:
			return "    "
		}
	}
	noise := func() {
		switch rapid.IntRange(0, 11).Draw(rt, "noise") {
		case 0:
			feats["blank"] = true
			sb.WriteString("\n")
		case 1:
			feats["blank"] = true
			sb.WriteString("   \t \n")
		case 2:
			feats["comment-line"] = true
			sb.WriteString(ws("cind") + "# a comment, with: punctuation (and) ret\n")
		case 3:
			feats["crlf"] = true
			sb.WriteString("\r\n")
		}
	}
	emitLabels := func(i int) {
		ls := at[i]
		// sorted for determinism
		for a := 0; a < len(ls); a++ {
			for b := a + 1; b < len(ls); b++ {
				if ls[b] < ls[a] {
					ls[a], ls[b] = ls[b], ls[a]
				}
			}
		}
		for _, l := range ls {
			noise()
			sb.WriteString(ws("lind") + l + ":" + strings.Repeat(" ", rapid.IntRange(0, 2).Draw(rt, "ltrail")) + "\n")
		}
	}
	for i, in := range p.Ins {
		emitLabels(i)
		noise()
		text := in.Text()
		// mnemonic case
		sp := strings.IndexByte(text, ' ')
		mn, rest := text, ""
		if sp >= 0 {
			mn, rest = text[:sp], text[sp+1:]
		}
		switch rapid.IntRange(0, 3).Draw(rt, "case") {
		case 0:
			feats["upper"] = true
			mn = strings.ToUpper(mn)
		case 1:
			feats["mixed"] = true
			mn = strings.ToUpper(mn[:1]) + mn[1:]
		}
		if rest != "" {
			parts := strings.Split(rest, ", ")
			for k, ptxt := range parts {
				if rapid.IntRange(0, 3).Draw(rt, "dollar") == 0 {
					// $-prefix registers
					for _, n := range ref.RegNames {
						if ptxt == n {
							ptxt = "$" + n
							feats["dollar"] = true
						}
						if strings.HasSuffix(ptxt, "("+n+")") {
							ptxt = strings.TrimSuffix(ptxt, "("+n+")") + "($" + n + ")"
							feats["dollar"] = true
						}
					}
				}
				if strings.Contains(ptxt, "(") && rapid.IntRange(0, 3).Draw(rt, "paren") == 0 {
					ptxt = strings.Replace(ptxt, "(", " ( ", 1)
					ptxt = strings.Replace(ptxt, ")", " )", 1)
					feats["paren-space"] = true
				}
				if _, isImm := parseImm(ptxt); isImm && !strings.HasPrefix(ptxt, "-") && rapid.IntRange(0, 5).Draw(rt, "plus") == 0 {
					ptxt = "+" + ptxt
					feats["plus"] = true
				}
				if m := zeroPadRe.FindStringSubmatch(ptxt); m != nil && rapid.IntRange(0, 5).Draw(rt, "zeropad") == 0 {
					// leading zeros: a decimal immediate (or offset) stays decimal
					ptxt = m[1] + strings.Repeat("0", rapid.IntRange(1, 2).Draw(rt, "zeros")) + m[2] + m[3]
					feats["zero-padded"] = true
				}
				parts[k] = ptxt
			}
			sep := ", "
			switch rapid.IntRange(0, 4).Draw(rt, "sep") {
			case 0:
				sep = ","
				feats["tight-comma"] = true
			case 1:
				sep = " , "
				feats["wide-comma"] = true
			case 2:
				sep = ",\t"
				feats["tab-comma"] = true
			}
			rest = strings.Join(parts, sep)
			gap := " "
			if rapid.IntRange(0, 4).Draw(rt, "gap") == 0 {
				gap = "   "
				feats["wide-gap"] = true
			}
			text = mn + gap + rest
		} else {
			text = mn
		}
		if rapid.IntRange(0, 4).Draw(rt, "trail") == 0 {
			feats["trailing-comment"] = true
			text += " # t0, 12(sp) :"
		}
		sb.WriteString(ws("ind") + text + "\n")
	}
	emitLabels(len(p.Ins))
	return sb.String()
}

func progObservation(app risc.Application) string {
	var sb strings.Builder
	for _, r := range app.Instructions {
		fmt.Fprintf(&sb, "%v %v %v;", r.InstructionType(), r.ReadRegisters(), r.WriteRegisters())
	}
	keys := make([]string, 0, len(app.Labels))
	for k := range app.Labels {
		keys = append(keys, k)
	}
	for a := 0; a < len(keys); a++ {
		for b := a + 1; b < len(keys); b++ {
			if keys[b] < keys[a] {
				keys[a], keys[b] = keys[b], keys[a]
			}
		}
	}
	for _, k := range keys {
		fmt.Fprintf(&sb, "%s=%d;", k, app.Labels[k])
	}
	return sb.String()
}

// TestC11Accepted: well-formed programs under drawn formatting are accepted,
// decode to the AST, and every formatting gives the same observations.
func TestC11Accepted(t *testing.T) {
	h := hx.Begin(t, "C11", "accepted")
	rapid.Check(t, func(rt *rapid.T) {
		cs := gen.Program(rt, c11Profile)
		feats := map[string]bool{}
		plain := cs.Prog.Text()
		text := format(rt, &cs.Prog, feats)
		usedLabel := false
		for _, in := range cs.Prog.Ins {
			if in.IsCondBr() && in.Label != "" {
				usedLabel = true
			}
		}
		var cls []string
		for f := range feats {
			cls = append(cls, "fmt:"+f)
		}
		h.Eval(hx.Hash(text), usedLabel && len(feats) > 0, cls...)
		c := c11Case{Text: text, Want: &cs.Prog}
		h.Sample(c)
		for _, cc := range []c11Case{{Text: plain, Want: &cs.Prog}, c} {
			if err, _ := c11Judge(cc); err != nil {
				h.Fail("c11", cc, len(cc.Text), err.Error())
				rt.Fatalf("%v\n%s", err, cc.Text)
			}
		}
		a1, _, _ := parseTotal(plain)
		a2, _, _ := parseTotal(text)
		if o1, o2 := progObservation(a1), progObservation(a2); o1 != o2 {
			msg := fmt.Sprintf("formatting changed the result: plain %s formatted %s", o1, o2)
			h.Fail("c11", c, len(text), msg)
			rt.Fatalf("%s", msg)
		}
	})
}

var alphabet = func() []string {
	a := []string{" ", " ", "\t", "\n", "\n", ",", ",", "(", ")", ":", "#", "$", "-", "+", "0", "1", "4", "9", "2147483647", "2147483648", "-2147483648", "-2147483649", "99999999999999999999", "0x10", "L1", "loop", "\r", ";", "."}
	a = append(a, ref.Mnemonics...)
	for _, n := range ref.RegNames {
		a = append(a, n)
	}
	return a
}()

func mutate(rt *rapid.T, text string) string {
	n := rapid.IntRange(1, 4).Draw(rt, "nmut")
	for k := 0; k < n; k++ {
		lines := strings.Split(text, "\n")
		li := rapid.IntRange(0, len(lines)-1).Draw(rt, "line")
		line := lines[li]
		pos := 0
		if len(line) > 0 {
			pos = rapid.IntRange(0, len(line)).Draw(rt, "pos")
		}
		switch rapid.IntRange(0, 13).Draw(rt, "mut") {
		case 0: // truncate the line
			line = line[:pos]
		case 1: // delete a character
			if pos < len(line) {
				line = line[:pos] + line[pos+1:]
			}
		case 2: // insert an alphabet token
			line = line[:pos] + rapid.SampledFrom(alphabet).Draw(rt, "tok") + line[pos:]
		case 3: // drop a parenthesis
			line = strings.Replace(line, ")", "", 1)
		case 4:
			line = strings.Replace(line, "(", "", 1)
		case 5: // double a parenthesis
			line = strings.Replace(line, "(", "((", 1)
		case 6:
			line = strings.Replace(line, ")", "))", 1)
		case 7: // tabs for spaces
			line = strings.ReplaceAll(line, " ", "\t")
		case 8: // duplicate the line (duplicate labels)
			line = line + "\n" + line
		case 9: // huge immediate
			line = regexp.MustCompile(`-?[0-9]+`).ReplaceAllString(line, rapid.SampledFrom([]string{"2147483648", "-2147483649", "99999999999999999999", "1e3", "0x7f", ""}).Draw(rt, "imm"))
		case 10: // drop an operand
			if i := strings.LastIndexByte(line, ','); i >= 0 {
				line = line[:i]
			}
		case 11: // empty operand
			line = strings.Replace(line, ", ", ",,", 1)
		case 12: // very long line
			line = line + strings.Repeat(rapid.SampledFrom([]string{"(", "a", ",", " ", "#", ":"}).Draw(rt, "rep"), 10000)
		case 13: // swap two tokens
			f := strings.Fields(line)
			if len(f) >= 2 {
				f[0], f[len(f)-1] = f[len(f)-1], f[0]
				line = strings.Join(f, " ")
			}
		}
		lines[li] = line
		text = strings.Join(lines, "\n")
	}
	return text
}

func c11Totality(h *hx.H, rt *rapid.T, text string, kind string) {
	c := c11Case{Text: text}
	err, judged := c11Judge(c)
	valid := 0
	for _, l := range strings.Split(text, "\n") {
		if k, _ := lineKind(l); k == "ins" {
			if _, ok := decodeLine(l); ok {
				valid++
			}
		}
	}
	h.Eval(hx.Hash(text), valid >= 1 && kind != "bytes", "kind:"+kind, "outcome:"+judged)
	if len(text) < 400 {
		h.Sample(c)
	}
	if err != nil {
		h.Fail("c11", c, len(text), err.Error())
		rt.Fatalf("%v\ninput %q", err, text)
	}
}

// TestC11Mutations: grammar-directed mutations of valid programs.
func TestC11Mutations(t *testing.T) {
	h := hx.Begin(t, "C11", "mutations")
	rapid.Check(t, func(rt *rapid.T) {
		cs := gen.Program(rt, c11Profile)
		feats := map[string]bool{}
		text := format(rt, &cs.Prog, feats)
		c11Totality(h, rt, mutate(rt, text), "mutation")
	})
}

// TestC11Alphabet: strings over the assembler alphabet.
func TestC11Alphabet(t *testing.T) {
	h := hx.Begin(t, "C11", "alphabet")
	rapid.Check(t, func(rt *rapid.T) {
		toks := rapid.SliceOfN(rapid.SampledFrom(alphabet), 0, 40).Draw(rt, "toks")
		c11Totality(h, rt, strings.Join(toks, ""), "alphabet")
	})
}

// TestC11Bytes: arbitrary byte strings.
func TestC11Bytes(t *testing.T) {
	h := hx.Begin(t, "C11", "bytes")
	rapid.Check(t, func(rt *rapid.T) {
		b := rapid.SliceOfN(rapid.Byte(), 0, 200).Draw(rt, "bytes")
		c11Totality(h, rt, string(b), "bytes")
	})
}

// FuzzC11 is the native-fuzzing target of the thorough tier.
func FuzzC11(f *testing.F) {
	f.Add("main:\n    addi t0, zero, 10\n    lw t1, 0(t0)\n    beq t0, t1, main\n    ret\n")
	f.Add("lw t0, 0(")
	f.Add("sh t0, 2, t1 # c\nJAL $ra, x\nx:")
	f.Fuzz(func(t *testing.T, s string) {
		if err, _ := c11Judge(c11Case{Text: s}); err != nil {
			t.Fatal(err)
		}
	})
}
