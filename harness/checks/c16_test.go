package checks

// C16 — word encoding is a little-endian bijection on all 32-bit values.

import (
	"encoding/binary"
	"encoding/json"
	"fmt"
	"testing"

	"github.com/teivah/majorana/common/bytes"
	"github.com/teivah/majorana/risc"
	"pgregory.net/rapid"

	"verif/hx"
)

type c16Case struct {
	V uint32 `json:"v"` // the 32-bit pattern (value to split, or the four bytes b0..b3 little-endian)
}

// c16Judge checks both round trips, the byte positions, and the store/load
// path of the instruction set on one 32-bit pattern.
func c16Judge(v uint32) error {
	var want [4]byte
	binary.LittleEndian.PutUint32(want[:], v)
	got := bytes.BytesFromLowBits(int32(v))
	for i := 0; i < 4; i++ {
		if uint8(got[i]) != want[i] {
			return fmt.Errorf("BytesFromLowBits(%#x): byte %d is %#x, bits %d..%d of the value are %#x", v, i, uint8(got[i]), 8*i, 8*i+7, want[i])
		}
	}
	back := bytes.I32FromBytes(got[0], got[1], got[2], got[3])
	if uint32(back) != v {
		return fmt.Errorf("I32FromBytes(BytesFromLowBits(%#x)) = %#x", v, uint32(back))
	}
	// the same four bytes seen as a quadruple: join then split
	j := bytes.I32FromBytes(int8(want[0]), int8(want[1]), int8(want[2]), int8(want[3]))
	if uint32(j) != v {
		return fmt.Errorf("I32FromBytes(% x) = %#x want %#x", want, uint32(j), v)
	}
	s := bytes.BytesFromLowBits(j)
	for i := 0; i < 4; i++ {
		if uint8(s[i]) != want[i] {
			return fmt.Errorf("BytesFromLowBits(I32FromBytes(% x)) byte %d = %#x", want, i, uint8(s[i]))
		}
	}
	return nil
}

var c16sw, c16lw risc.InstructionRunner

func c16Instr() {
	if c16sw != nil {
		return
	}
	app, err := risc.Parse("sw t0, 0(t1)\nlw t2, 0(t1)")
	if err != nil {
		panic(err)
	}
	c16sw, c16lw = app.Instructions[0], app.Instructions[1]
}

// c16StoreLoad: storing a word and loading it back never changes it, through
// the sw and lw instruction implementations.
func c16StoreLoad(v uint32) error {
	c16Instr()
	ctx := risc.NewContext(false, 16, false)
	ctx.Registers[risc.T0] = int32(v)
	ctx.Registers[risc.T1] = 4
	exe, err := c16sw.Run(ctx, nil, 0, nil, 0)
	if err != nil {
		return fmt.Errorf("sw: %v", err)
	}
	var want [4]byte
	binary.LittleEndian.PutUint32(want[:], v)
	if !exe.MemoryChange || len(exe.MemoryChanges) != 4 {
		return fmt.Errorf("sw %#x: memory changes %v", v, exe.MemoryChanges)
	}
	mem := make([]int8, 4)
	for i := 0; i < 4; i++ {
		b, ok := exe.MemoryChanges[int32(4+i)]
		if !ok || uint8(b) != want[i] {
			return fmt.Errorf("sw %#x: byte at +%d is %#x (present %v) want %#x", v, i, uint8(b), ok, want[i])
		}
		mem[i] = b
	}
	exe, err = c16lw.Run(ctx, nil, 4, mem, 0)
	if err != nil {
		return fmt.Errorf("lw: %v", err)
	}
	if !exe.RegisterChange || exe.Register != risc.T2 || uint32(exe.RegisterValue) != v {
		return fmt.Errorf("sw then lw of %#x gives %#x", v, uint32(exe.RegisterValue))
	}
	return nil
}

func c16Nontrivial(v uint32) bool { return v&0x80808080 != 0 }

func init() {
	hx.Register("c16", func(raw json.RawMessage) error {
		var c c16Case
		if err := json.Unmarshal(raw, &c); err != nil {
			return err
		}
		if err := c16Judge(c.V); err != nil {
			return err
		}
		return c16StoreLoad(c.V)
	})
}

var c16Lattice = []uint32{0x00, 0x01, 0x7f, 0x80, 0x81, 0xfe, 0xff, 0x55, 0xaa}

// TestC16Lattice enumerates every value whose four bytes come from the
// boundary set, every one-bit and two-bit pattern and their complements.
func TestC16Lattice(t *testing.T) {
	h := hx.Begin(t, "C16", "lattice")
	try := func(v uint32) {
		h.Eval(uint64(v), c16Nontrivial(v))
		h.Sample(c16Case{v})
		err := c16Judge(v)
		if err == nil {
			err = c16StoreLoad(v)
		}
		if err != nil {
			h.Fail("c16", c16Case{v}, 0, err.Error())
			t.Fatalf("%v", err)
		}
	}
	for _, a := range c16Lattice {
		for _, b := range c16Lattice {
			for _, c := range c16Lattice {
				for _, d := range c16Lattice {
					try(a | b<<8 | c<<16 | d<<24)
				}
			}
		}
	}
	for i := 0; i < 32; i++ {
		try(1 << i)
		try(^(uint32(1) << i))
		for j := i + 1; j < 32; j++ {
			try(1<<i | 1<<j)
			try(^(uint32(1)<<i | 1<<j))
		}
	}
}

// TestC16Random draws random 32-bit patterns.
func TestC16Random(t *testing.T) {
	h := hx.Begin(t, "C16", "random")
	rapid.Check(t, func(rt *rapid.T) {
		// 64 patterns per rapid case keeps the per-case overhead small
		vs := rapid.SliceOfN(rapid.Uint32(), 64, 64).Draw(rt, "v")
		for _, v := range vs {
			h.Eval(uint64(v), c16Nontrivial(v))
			h.Sample(c16Case{v})
			err := c16Judge(v)
			if err == nil {
				err = c16StoreLoad(v)
			}
			if err != nil {
				h.Fail("c16", c16Case{v}, 0, err.Error())
				rt.Fatalf("%v", err)
			}
		}
	})
}

// TestC16Exhaustive enumerates the shard's slice of all 2^32 values (both
// directions are covered by c16Judge on the same pattern).
func TestC16Exhaustive(t *testing.T) {
	h := hx.Begin(t, "C16", "exhaustive")
	e := h.Env
	lo := uint64(e.Shard) << 32 / uint64(e.Shards)
	hi := uint64(e.Shard+1) << 32 / uint64(e.Shards)
	var n, nt int64
	for x := lo; x < hi; x++ {
		v := uint32(x)
		n++
		if c16Nontrivial(v) {
			nt++
		}
		if err := c16Judge(v); err != nil {
			h.Evals(n)
			h.Fail("c16", c16Case{v}, 0, err.Error())
			t.Fatalf("%v", err)
		}
		if x&0xfff == 0 { // the instruction path on a 1/4096 stride (it allocates)
			if err := c16StoreLoad(v); err != nil {
				h.Evals(n)
				h.Fail("c16", c16Case{v}, 0, err.Error())
				t.Fatalf("%v", err)
			}
		}
	}
	h.Evals(n)
	h.NontrivialBulk(nt)
	h.Sample(c16Case{uint32(lo)})
	h.Sample(c16Case{uint32(hi - 1)})
	h.Exhaustive()
}

// FuzzC16 is the native-fuzzing formality of the thorough tier.
func FuzzC16(f *testing.F) {
	for _, v := range []uint32{0, 1, 0x80, 0x8000, 0x800000, 0x80000000, 0xffffffff, 0x7fffffff, 0x55aa55aa} {
		f.Add(v)
	}
	f.Fuzz(func(t *testing.T, v uint32) {
		if err := c16Judge(v); err != nil {
			t.Fatal(err)
		}
		if err := c16StoreLoad(v); err != nil {
			t.Fatal(err)
		}
	})
}
