package checks

import (
	"encoding/json"
	"fmt"
	"os"
	"strconv"
	"strings"
	"testing"

	"verif/evid"
	"verif/gen"
	"verif/ref"
	"verif/sim"
)

// progFromText converts assembler text of the generated subset into the AST
// form (used to write hand-made witnesses in the replayable format).
func progFromText(text string) (ref.Prog, error) {
	p := ref.Prog{Labels: map[string]int{}}
	for _, raw := range strings.Split(text, "\n") {
		kind, name := lineKind(raw)
		switch kind {
		case "label":
			p.Labels[name] = len(p.Ins)
		case "ins":
			in, ok := decodeLine(raw)
			if !ok {
				return p, fmt.Errorf("cannot decode %q", raw)
			}
			p.Ins = append(p.Ins, in)
		case "other":
			return p, fmt.Errorf("cannot classify %q", raw)
		}
	}
	return p, nil
}

// TestMkCase is a development aid: it turns VERIF_TEXT (';' separates lines),
// VERIF_REGS ("t0=5,ra=-1"), VERIF_MEMSIZE, VERIF_MEMSEED, VERIF_CFG
// ("mvp6-0/p2") and VERIF_ORACLE into a replay file VERIF_OUTFILE and judges it.
func TestMkCase(t *testing.T) {
	text := os.Getenv("VERIF_TEXT")
	if text == "" {
		t.Skip()
	}
	text = strings.ReplaceAll(text, ";", "\n")
	p, err := progFromText(text)
	if err != nil {
		t.Fatal(err)
	}
	c := gen.Case{Prog: p, MemSize: 256, Profile: "hand"}
	if v, err := strconv.Atoi(os.Getenv("VERIF_MEMSIZE")); err == nil {
		c.MemSize = v
	}
	if v, err := strconv.ParseUint(os.Getenv("VERIF_MEMSEED"), 10, 64); err == nil {
		c.MemSeed = v
	}
	for _, kv := range strings.Split(os.Getenv("VERIF_REGS"), ",") {
		if kv == "" {
			continue
		}
		parts := strings.SplitN(kv, "=", 2)
		r, ok := regIndex[parts[0]]
		if !ok {
			t.Fatalf("register %q", parts[0])
		}
		v, _ := strconv.ParseInt(parts[1], 10, 64)
		c.Regs[r] = int32(v)
	}
	c.Text = p.Text()
	cfgs := sim.AllConfigs()
	if s := os.Getenv("VERIF_CFG"); s != "" {
		cfgs = nil
		for _, one := range strings.Split(s, ",") {
			parts := strings.Split(one, "/p")
			par, _ := strconv.Atoi(parts[1])
			cfgs = append(cfgs, sim.Config{Variant: parts[0], Par: par})
		}
	}
	r, ok := refRun(&c)
	if os.Getenv("VERIF_ORACLE") == "err" {
		wrote := false
		for _, cfg := range cfgs {
			err := judgeDefinedError(&c, cfg, &r)
			fmt.Printf("%-10s %v\n", cfg, err)
			if err != nil && !wrote && os.Getenv("VERIF_OUTFILE") != "" {
				raw, _ := json.Marshal(progCase{Case: c, Cfg: cfg, Oracle: "err"})
				b, _ := json.MarshalIndent(evid.Replay{Property: os.Getenv("VERIF_PROP"), Kind: "prog", Case: raw, Message: err.Error()}, "", " ")
				_ = os.WriteFile(os.Getenv("VERIF_OUTFILE"), b, 0o644)
				wrote = true
			}
		}
		return
	}
	if !ok {
		t.Fatalf("reference: %v", r.Err)
	}
	prop := os.Getenv("VERIF_PROP")
	if prop == "" {
		prop = "C01"
	}
	oracle := os.Getenv("VERIF_ORACLE")
	if oracle == "" {
		oracle = "diff"
	}
	wrote := false
	for _, cfg := range cfgs {
		d, out := judgeDiff(&c, cfg, &r)
		fmt.Printf("%-10s %-7s cycles=%-6d %s\n", cfg, out.Kind, out.Cycles, d)
		if d != "" && !wrote && os.Getenv("VERIF_OUTFILE") != "" {
			raw, _ := json.Marshal(progCase{Case: c, Cfg: cfg, Oracle: oracle})
			b, _ := json.MarshalIndent(evid.Replay{Property: prop, Kind: "prog", Case: raw, Message: cfg.String() + ": " + d}, "", " ")
			if err := os.WriteFile(os.Getenv("VERIF_OUTFILE"), b, 0o644); err != nil {
				t.Fatal(err)
			}
			wrote = true
		}
	}
}
