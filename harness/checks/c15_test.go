package checks

// C15 — speculative register state commits and rolls back by program order.

import (
	"encoding/json"
	"fmt"
	"testing"

	"github.com/teivah/majorana/proc/comp"
	"github.com/teivah/majorana/risc"
	"pgregory.net/rapid"

	"verif/hx"
	"verif/ref"
)

type specOp struct {
	Op  string `json:"op"` // write, read, commit, rollback, flush
	Reg int    `json:"reg,omitempty"`
	Val int32  `json:"val,omitempty"`
	Tag int32  `json:"tag,omitempty"`
}

type specCase struct {
	RAT bool     `json:"rat"` // rename table (true) or transaction map (false)
	Ops []specOp `json:"ops"`
}

type specWrite struct {
	tag, val int32
}

// c15Regs are the registers the histories use (t0, t1, t2).
var c15Regs = []int{5, 6, 7}

var c15Readers = map[int]risc.InstructionRunner{}

func c15Reader(reg int) risc.InstructionRunner {
	if r, ok := c15Readers[reg]; ok {
		return r
	}
	app, err := risc.Parse("mv t6, " + ref.RegNames[reg])
	if err != nil {
		panic(err)
	}
	c15Readers[reg] = app.Instructions[0]
	return app.Instructions[0]
}

// runSpec applies the history to a risc.Context and to the model: per
// register, the architectural value and the list of uncommitted writes in
// arrival order. Sub-domains (reported, and the only ones judged for the
// value-by-tag claims): tags of one register arrive in increasing order, and
// the uncommitted writes of one register stay within the slots (1 for the
// transaction map, 10 for the rename table).
func runSpec(c specCase, stats map[string]int, skipArbitrary bool) (err error) {
	defer func() {
		if r := recover(); r != nil {
			err = fmt.Errorf("Go panic: %v", r)
		}
	}()
	slots := 1
	if c.RAT {
		slots = 10
	}
	ctx := risc.NewContext(false, 8, c.RAT)
	arch := map[int]int32{}
	for _, r := range c15Regs {
		v := int32(100 + r)
		ctx.Registers[risc.RegisterType(r)] = v
		arch[r] = v
	}
	if c.RAT {
		ctx.InitRAT()
	}
	pend := map[int][]specWrite{}
	inOrder := true // tags arrive in increasing order per register
	within := true  // uncommitted writes per register within the slots
	read := func(reg int, tag int32) int32 {
		exe, rerr := c15Reader(reg).Run(ctx, nil, 0, nil, tag)
		if rerr != nil {
			panic(rerr)
		}
		return exe.RegisterValue
	}
	youngest := func(ws []specWrite, below int32, bounded bool) (specWrite, bool) {
		var best specWrite
		found := false
		for _, w := range ws {
			if bounded && w.tag >= below {
				continue
			}
			if !found || w.tag >= best.tag { // equal tags: the later arrival
				best, found = w, true
			}
		}
		return best, found
	}
	archValue := func(reg int) int32 {
		if c.RAT {
			ctx.RATFlush()
		}
		return ctx.Registers[risc.RegisterType(reg)]
	}
	for i, op := range c.Ops {
		switch op.Op {
		case "write":
			exe := risc.Execution{RegisterChange: true, Register: risc.RegisterType(op.Reg), RegisterValue: op.Val}
			if c.RAT {
				ctx.TransactionRATWrite(exe, op.Tag)
			} else {
				ctx.TransactionWriteRegister(exe, op.Tag)
			}
			ws := pend[op.Reg]
			if len(ws) > 0 && ws[len(ws)-1].tag >= op.Tag {
				inOrder = false
			}
			pend[op.Reg] = append(ws, specWrite{op.Tag, op.Val})
			if len(pend[op.Reg]) > slots {
				within = false
			}
		case "read":
			got := read(op.Reg, op.Tag)
			ws := pend[op.Reg]
			if op.Tag == 0 {
				// a plain read returns the youngest uncommitted value (the last
				// one written when tags arrive in order), else the architectural one
				stats["read-plain"]++
				if !inOrder {
					continue
				}
				want := arch[op.Reg]
				if len(ws) > 0 {
					want = ws[len(ws)-1].val
				}
				if got != want {
					return fmt.Errorf("step %d %+v: plain read of %s gives %d, the youngest value is %d", i, op, ref.RegNames[op.Reg], got, want)
				}
				continue
			}
			stats["read-tagged"]++
			// a read on behalf of tag t never returns a value written by a younger
			// instruction (whatever the arrival order and the number of writes)
			for _, w := range ws {
				if w.tag > op.Tag && w.val == got {
					older := false
					for _, o := range ws {
						if o.tag <= op.Tag && o.val == got {
							older = true
						}
					}
					if !older && arch[op.Reg] != got {
						return fmt.Errorf("step %d %+v: a read of %s with tag %d returns %d, written by the younger tag %d", i, op, ref.RegNames[op.Reg], op.Tag, got, w.tag)
					}
				}
			}
			if inOrder && within {
				want := arch[op.Reg]
				if w, ok := youngest(ws, op.Tag+1, true); ok {
					want = w.val
				}
				if got != want {
					return fmt.Errorf("step %d %+v: a read of %s with tag %d returns %d, the youngest value not younger than the reader is %d", i, op, ref.RegNames[op.Reg], op.Tag, got, want)
				}
			}
		case "commit":
			if c.RAT {
				ctx.RATCommit()
			} else {
				ctx.Commit()
			}
			stats["commit"]++
			for _, r := range c15Regs {
				ws := pend[r]
				want := arch[r]
				if len(ws) > 0 {
					if inOrder {
						want = ws[len(ws)-1].val // = the youngest, also beyond the slots
					} else if within {
						w, _ := youngest(ws, 0, false)
						want = w.val
					}
				}
				if !inOrder && skipArbitrary {
					stats["excluded:arbitrary-order"]++
				} else if inOrder || within {
					if got := archValue(r); got != want {
						return fmt.Errorf("step %d commit: %s is %d, its youngest write is %d (writes %v)", i, ref.RegNames[r], got, want, ws)
					}
				}
				arch[r] = archValue(r)
			}
			pend = map[int][]specWrite{}
			inOrder, within = true, true
		case "rollback":
			if c.RAT {
				ctx.RATRollback(op.Tag)
			} else {
				ctx.Rollback(op.Tag)
			}
			kept, dropped := false, false
			for _, r := range c15Regs {
				ws := pend[r]
				want := arch[r]
				if w, ok := youngest(ws, op.Tag, true); ok {
					want = w.val
					kept = true
				}
				for _, w := range ws {
					if w.tag >= op.Tag {
						dropped = true
					}
				}
				if !inOrder && within && !skipArbitrary {
					if got := archValue(r); got != want {
						return fmt.Errorf("step %d rollback to %d (tags arrived out of order): %s is %d, its youngest write older than the tag is %d (writes %v)", i, op.Tag, ref.RegNames[r], got, want, ws)
					}
				}
				if inOrder && within {
					if got := archValue(r); got != want {
						return fmt.Errorf("step %d rollback to %d: %s is %d, its youngest write older than the tag is %d (writes %v, value before %d)", i, op.Tag, ref.RegNames[r], got, want, ws, arch[r])
					}
				}
				arch[r] = archValue(r)
			}
			if kept && dropped {
				stats["rollback-keeps-and-discards"]++
			}
			pend = map[int][]specWrite{}
			inOrder, within = true, true
		}
	}
	if !inOrder {
		stats["domain:arbitrary-order"]++
	} else {
		stats["domain:in-order"]++
	}
	if !within {
		stats["domain:beyond-slots"]++
	}
	return nil
}

// ---- comp.RAT against a ring model

type ratOp struct {
	Op  string `json:"op"` // write, read, find, values, findvalues
	Key int    `json:"key"`
	Val int    `json:"val,omitempty"` // the value doubles as its tag
	Arg int    `json:"arg,omitempty"` // bound of the predicate "value <= arg"
}

type ratCase struct {
	Len int     `json:"len"`
	Ops []ratOp `json:"ops"`
}

func runRAT(c ratCase, stats map[string]int) (err error) {
	defer func() {
		if r := recover(); r != nil {
			err = fmt.Errorf("Go panic: %v", r)
		}
	}()
	rat := comp.NewRAT[int, int](c.Len)
	ring := map[int][]int{} // per key, the last Len values, oldest first
	newestMatch := func(k, bound int) (int, bool) {
		vs := ring[k]
		for i := len(vs) - 1; i >= 0; i-- {
			if vs[i] <= bound {
				return vs[i], true
			}
		}
		return 0, false
	}
	for i, op := range c.Ops {
		switch op.Op {
		case "write":
			rat.Write(op.Key, op.Val)
			vs := append(ring[op.Key], op.Val)
			if len(vs) > c.Len {
				vs = vs[1:]
				stats["wrapped"]++
			}
			ring[op.Key] = vs
		case "read":
			v, ok := rat.Read(op.Key)
			vs := ring[op.Key]
			if ok != (len(vs) > 0) || (ok && v != vs[len(vs)-1]) {
				return fmt.Errorf("step %d %+v: Read = %d,%v, ring %v", i, op, v, ok, vs)
			}
		case "find":
			v, ok := rat.Find(op.Key, func(x int) bool { return x <= op.Arg })
			want, wok := newestMatch(op.Key, op.Arg)
			if ok != wok || (ok && v != want) {
				return fmt.Errorf("step %d %+v: Find(<=%d) = %d,%v, the newest matching slot of ring %v is %d,%v", i, op, op.Arg, v, ok, ring[op.Key], want, wok)
			}
			if wok && want != ring[op.Key][len(ring[op.Key])-1] {
				stats["find-skips-newest"]++
			}
		case "values":
			m := rat.Values()
			if len(m) != len(ring) {
				return fmt.Errorf("step %d: Values %v, ring %v", i, m, ring)
			}
			for k, vs := range ring {
				if m[k] != vs[len(vs)-1] {
					return fmt.Errorf("step %d: Values %v, ring %v", i, m, ring)
				}
			}
		case "findvalues":
			m := rat.FindValues(func(x int) bool { return x <= op.Arg })
			for k := range ring {
				want, wok := newestMatch(k, op.Arg)
				got, gok := m[k]
				if gok != wok || (gok && got != want) {
					return fmt.Errorf("step %d %+v: FindValues(<=%d)[%d] = %d,%v, ring %v gives %d,%v", i, op, op.Arg, k, got, gok, ring[k], want, wok)
				}
			}
			for k := range m {
				if _, ok := ring[k]; !ok {
					return fmt.Errorf("step %d: FindValues invents key %d", i, k)
				}
			}
		}
	}
	return nil
}

func init() {
	hx.Register("spec", func(raw json.RawMessage) error {
		var c specCase
		if err := json.Unmarshal(raw, &c); err != nil {
			return err
		}
		return runSpec(c, map[string]int{}, false)
	})
	hx.Register("rat", func(raw json.RawMessage) error {
		var c ratCase
		if err := json.Unmarshal(raw, &c); err != nil {
			return err
		}
		return runRAT(c, map[string]int{})
	})
}

func genSpec(rt *rapid.T) specCase {
	c := specCase{RAT: rapid.Bool().Draw(rt, "rat")}
	n := rapid.IntRange(1, 30).Draw(rt, "nops")
	ordered := rapid.IntRange(0, 3).Draw(rt, "ordered") != 0
	tag := int32(4)
	for i := 0; i < n; i++ {
		op := specOp{Op: rapid.SampledFrom([]string{"write", "write", "write", "read", "read", "commit", "rollback"}).Draw(rt, "op")}
		op.Reg = rapid.SampledFrom(c15Regs).Draw(rt, "reg")
		switch op.Op {
		case "write":
			if ordered {
				tag += 4 * int32(rapid.IntRange(1, 3).Draw(rt, "step"))
				op.Tag = tag
			} else {
				op.Tag = 4 * int32(rapid.IntRange(1, 40).Draw(rt, "tag"))
			}
			op.Val = int32(1000*(i+1)) + op.Tag // distinct values
		case "read":
			if rapid.IntRange(0, 3).Draw(rt, "plain") == 0 {
				op.Tag = 0
			} else {
				op.Tag = 4*int32(rapid.IntRange(1, 40).Draw(rt, "tag")) + 2
			}
		case "rollback":
			op.Tag = 4*int32(rapid.IntRange(1, 40).Draw(rt, "tag")) + 2
			if ordered && rapid.Bool().Draw(rt, "near") {
				op.Tag = tag - 2
			}
			if rapid.IntRange(0, 4).Draw(rt, "boundary") == 0 {
				// the tag of a write itself: that write is not older than the tag
				op.Tag = 4 * int32(rapid.IntRange(1, 40).Draw(rt, "btag"))
				if ordered {
					op.Tag = tag - 4*int32(rapid.IntRange(0, 2).Draw(rt, "bback"))
				}
			}
		}
		c.Ops = append(c.Ops, op)
	}
	return c
}

func TestC15Context(t *testing.T) {
	h := hx.Begin(t, "C15", "context")
	rapid.Check(t, func(rt *rapid.T) {
		c := genSpec(rt)
		stats := map[string]int{}
		_, skip := knownFindings().Active("commit-by-arrival-order")
		err := runSpec(c, stats, skip)
		if stats["excluded:arbitrary-order"] > 0 {
			h.Exclude("F14")
		}
		var cls []string
		for k := range stats {
			cls = append(cls, k)
		}
		if c.RAT {
			cls = append(cls, "rename-table")
		} else {
			cls = append(cls, "transaction-map")
		}
		h.Eval(hx.Hash(c), stats["rollback-keeps-and-discards"] > 0, cls...)
		h.Sample(c)
		if err != nil {
			h.Fail("spec", c, len(c.Ops), err.Error())
			rt.Fatalf("%v", err)
		}
	})
}

func TestC15RAT(t *testing.T) {
	h := hx.Begin(t, "C15", "rat")
	rapid.Check(t, func(rt *rapid.T) {
		c := ratCase{Len: rapid.IntRange(2, 10).Draw(rt, "len")}
		n := rapid.IntRange(1, 50).Draw(rt, "nops")
		for i := 0; i < n; i++ {
			c.Ops = append(c.Ops, ratOp{
				Op:  rapid.SampledFrom([]string{"write", "write", "write", "read", "find", "find", "values", "findvalues"}).Draw(rt, "op"),
				Key: rapid.IntRange(0, 2).Draw(rt, "key"),
				Val: rapid.IntRange(1, 60).Draw(rt, "val"),
				Arg: rapid.IntRange(0, 60).Draw(rt, "arg"),
			})
		}
		stats := map[string]int{}
		err := runRAT(c, stats)
		h.Eval(hx.Hash(c), stats["find-skips-newest"] > 0, fmt.Sprintf("ring:%d", c.Len))
		h.Sample(c)
		if err != nil {
			h.Fail("rat", c, len(c.Ops), err.Error())
			rt.Fatalf("%v", err)
		}
	})
}

// TestC15Exhaustive enumerates every history of length <= depth over 2 keys,
// 3 values/tags and ring lengths 2 and 3 on comp.RAT.
func TestC15Exhaustive(t *testing.T) {
	h := hx.Begin(t, "C15", "exhaustive")
	depth := h.Env.Count
	if depth == 0 {
		depth = 6
	}
	var acts []ratOp
	for k := 0; k < 2; k++ {
		for v := 1; v <= 3; v++ {
			acts = append(acts, ratOp{Op: "write", Key: k, Val: v})
		}
		for a := 0; a <= 2; a++ {
			acts = append(acts, ratOp{Op: "find", Key: k, Arg: a})
		}
	}
	acts = append(acts, ratOp{Op: "findvalues", Arg: 1}, ratOp{Op: "findvalues", Arg: 2}, ratOp{Op: "values"})
	var n, nt int64
	ok := true
	for _, ln := range []int{2, 3} {
		ops := make([]ratOp, 0, depth)
		var rec func(d int) bool
		rec = func(d int) bool {
			if d > 0 {
				c := ratCase{Len: ln, Ops: ops}
				stats := map[string]int{}
				n++
				if err := runRAT(c, stats); err != nil {
					cc := ratCase{Len: ln, Ops: append([]ratOp(nil), ops...)}
					h.Fail("rat", cc, len(ops), err.Error())
					t.Errorf("%v", err)
					return false
				}
				if stats["find-skips-newest"] > 0 {
					nt++
				}
				if n == 50 || n == 50000 {
					h.Sample(ratCase{Len: ln, Ops: append([]ratOp(nil), ops...)})
				}
			}
			if d == depth {
				return true
			}
			for i, a := range acts {
				if d == 0 && i%h.Env.Shards != h.Env.Shard {
					continue
				}
				ops = append(ops, a)
				r := rec(d + 1)
				ops = ops[:len(ops)-1]
				if !r {
					return false
				}
			}
			return true
		}
		if !rec(0) {
			ok = false
			break
		}
	}
	if ok {
		h.Exhaustive()
	}
	h.Evals(n)
	h.NontrivialBulk(nt)
}
