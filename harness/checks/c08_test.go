package checks

// C08 — runs are deterministic and isolated.

import (
	"crypto/sha256"
	"encoding/hex"
	"encoding/json"
	"fmt"
	"os"
	"os/exec"
	"path/filepath"
	"strings"
	"sync"
	"testing"

	"github.com/teivah/majorana/risc"
	"pgregory.net/rapid"

	"verif/gen"
	"verif/hx"
	"verif/ref"
	"verif/sim"
)

// digest of an outcome: class, and for a run that returns: cycles, the 32
// registers, all memory.
func digest(o sim.Outcome) string {
	if o.Kind != sim.OK {
		// a run that does not return has no registers, memory or cycle count; the
		// text of a panic is not part of the claim (it can name whichever byte of a
		// wild store Go's map iteration reached first)
		return o.Kind
	}
	h := sha256.New()
	fmt.Fprintf(h, "%s|%d|%v|", o.Kind, o.Cycles, o.Reg)
	for _, b := range o.Mem {
		h.Write([]byte{byte(b)})
	}
	return fmt.Sprintf("%s/%d/%s", o.Kind, o.Cycles, hex.EncodeToString(h.Sum(nil))[:16])
}

type c08Case struct {
	Case     gen.Case   `json:"case"`
	Cfg      sim.Config `json:"cfg"`
	Relation string     `json:"relation"` // repeat, after-others, concurrent, reuse-same, reuse-other, reuse-other-state, child
	Other    sim.Config `json:"other,omitempty"`
}

var noisePrograms = []string{
	"li t0, 7\nli t1, 9\nmul t2, t0, t1\nsw t2, 0(zero)\nlw t3, 0(zero)\nret\n",
	"li s11, 5\nL:\nlw t0, 0(zero)\naddi t0, t0, 3\nsw t0, 0(zero)\naddi s11, s11, -1\nbnez s11, L\n",
}

func runNoise(k int) {
	cfgs := []sim.Config{{Variant: "mvp6-3", Par: 3}, {Variant: "mvp8-0", Par: 2}, {Variant: "mvp4", Par: 1}, {Variant: "mvp7-1", Par: 4}}
	cfg := cfgs[k%len(cfgs)]
	_ = sim.Run(cfg, noisePrograms[k%len(noisePrograms)], ref.State{Mem: make([]int8, 256)}, 200000, nil)
}

// c08Judge checks one relation against the first run R0 of a fresh machine
// with a freshly parsed program.
func c08Judge(c c08Case) error {
	text := c.Case.Prog.Text()
	init := c.Case.Init()
	budget := sim.BudgetFor(refSteps(&c.Case))
	r0 := digest(sim.Run(c.Cfg, text, init, budget, nil))
	switch c.Relation {
	case "repeat":
		for k := 0; k < 5; k++ {
			if d := digest(sim.Run(c.Cfg, text, init, budget, nil)); d != r0 {
				return fmt.Errorf("%s: repetition %d gives %s, the first run %s", c.Cfg, k+2, d, r0)
			}
		}
	case "after-others":
		for k := 0; k < 3; k++ {
			runNoise(k)
			if d := digest(sim.Run(c.Cfg, text, init, budget, nil)); d != r0 {
				return fmt.Errorf("%s: after %d unrelated machines the run gives %s, the first run %s", c.Cfg, k+1, d, r0)
			}
		}
	case "concurrent":
		const n = 6
		out := make([]string, n)
		var wg sync.WaitGroup
		for k := 0; k < n; k++ {
			wg.Add(1)
			go func(k int) {
				defer wg.Done()
				out[k] = digest(sim.Run(c.Cfg, text, init, budget, nil))
			}(k)
		}
		for k := 0; k < 2; k++ {
			wg.Add(1)
			go func(k int) {
				defer wg.Done()
				runNoise(k)
			}(k)
		}
		wg.Wait()
		for k, d := range out {
			if d != r0 {
				return fmt.Errorf("%s: machine %d of %d running concurrently gives %s, a lone run %s", c.Cfg, k+1, n, d, r0)
			}
		}
	case "reuse-same", "reuse-other", "reuse-other-state":
		app, err := risc.Parse(text)
		if err != nil {
			return nil
		}
		first := c.Cfg
		if c.Relation == "reuse-other" {
			first = c.Other
		}
		firstInit := init
		if c.Relation == "reuse-other-state" {
			// the first machine runs the same parsed program from another state
			// (other register values, other memory bytes): it may take other paths,
			// fault or exhaust its budget — whatever it leaves inside the parsed
			// program must not reach the second machine
			firstInit = ref.State{Mem: append([]int8(nil), init.Mem...)}
			for i := range firstInit.Mem {
				firstInit.Mem[i] ^= int8(i*37 + 11)
			}
			for i := 1; i < 32; i++ {
				firstInit.Reg[i] = init.Reg[i]*3 + int32(i)
			}
		}
		// the parsed program is used by a first machine, then by the judged one
		_ = sim.RunApp(first, app, firstInit, budget, nil)
		if d := digest(sim.RunApp(c.Cfg, app, init, budget, nil)); d != r0 {
			return fmt.Errorf("%s: re-using the program parsed for a run on %s gives %s, a freshly parsed program %s", c.Cfg, first, d, r0)
		}
		if d := digest(sim.RunApp(c.Cfg, app, init, budget, nil)); d != r0 {
			return fmt.Errorf("%s: third use of one parsed program gives %s, a freshly parsed program %s", c.Cfg, d, r0)
		}
	case "reuse-chain":
		// one parsed program serves a chain of machines: first the case's
		// configuration from another state (deep speculation leaves operands
		// installed in squashed instructions), then every forwarding variant at
		// parallelism 1 and 2 from the case's state; each must compute what it
		// computes with a freshly parsed program
		app, err := risc.Parse(text)
		if err != nil {
			return nil
		}
		other := ref.State{Mem: append([]int8(nil), init.Mem...)}
		for i := range other.Mem {
			other.Mem[i] ^= int8(i*37 + 11)
		}
		for i := 1; i < 32; i++ {
			other.Reg[i] = init.Reg[i]*3 + int32(i)
		}
		judge := func(variants []string, after string) error {
			for _, v := range variants {
				for par := 1; par <= 2; par++ {
					if par == 2 && !sim.IsMulti(v) {
						continue
					}
					cfg := sim.Config{Variant: v, Par: par}
					fresh := digest(sim.Run(cfg, text, init, budget, nil))
					if d := digest(sim.RunApp(cfg, app, init, budget, nil)); d != fresh {
						return fmt.Errorf("%s: re-using a program parsed once for a chain of machines (%s on %s) gives %s, a freshly parsed program %s", cfg, after, c.Cfg, d, fresh)
					}
				}
			}
			return nil
		}
		// the variants that never clear a forwarded operand themselves
		plain := []string{"mvp1", "mvp2", "mvp3", "mvp4", "mvp5", "mvp6-0"}
		if c.Case.Meta["faultprobe"] > 0 {
			// the program holds "div zero, zero, s6": with s6 = 0 the first machine
			// ends with the division-by-zero error while instructions are in flight
			// (other memory bytes too, so that loaded values differ)
			fault := init
			fault.Mem = append([]int8(nil), init.Mem...)
			for i := range fault.Mem {
				fault.Mem[i] ^= int8(i*29 + 7)
			}
			fault.Reg[gen.RegProbe] = 0
			_ = sim.RunApp(c.Cfg, app, fault, budget, nil)
			if err := judge(plain, "after a run that ended with the division-by-zero error"); err != nil {
				return err
			}
		}
		// a run from another state: other paths, possibly an error, a crash or an
		// exhausted budget
		_ = sim.RunApp(c.Cfg, app, other, budget, nil)
		if err := judge(plain, "after a run from another state"); err != nil {
			return err
		}
		_ = sim.RunApp(c.Cfg, app, init, budget, nil)
		if err := judge([]string{"mvp6-1", "mvp6-2", "mvp6-3", "mvp7-0", "mvp7-1", "mvp8-0"}, "after three runs"); err != nil {
			return err
		}
	case "child":
		d, err := childDigest(c)
		if err != nil {
			return nil // infrastructure: not a verdict
		}
		if d != r0 {
			return fmt.Errorf("%s: another process computes %s, this process %s", c.Cfg, d, r0)
		}
	}
	return nil
}

func refSteps(c *gen.Case) int {
	r := ref.Run(&c.Prog, c.Init(), ref.Options{MaxSteps: 20000})
	return r.Steps
}

// childDigest re-executes the test binary on the case and returns the digest it
// prints.
func childDigest(c c08Case) (string, error) {
	dir, err := os.MkdirTemp(hx.GetEnv().OutDir, "child")
	if err != nil {
		return "", err
	}
	defer os.RemoveAll(dir)
	raw, _ := json.Marshal(c)
	path := filepath.Join(dir, "case.json")
	if err := os.WriteFile(path, raw, 0o644); err != nil {
		return "", err
	}
	cmd := exec.Command(os.Args[0], "-test.run", "^TestC08Child$", "-test.count", "1")
	cmd.Env = append(os.Environ(), "VERIF_CHILD_CASE="+path)
	cmd.Dir = dir
	out, err := cmd.CombinedOutput()
	if err != nil {
		return "", err
	}
	for _, l := range strings.Split(string(out), "\n") {
		if strings.HasPrefix(l, "CHILD-DIGEST ") {
			return strings.TrimPrefix(l, "CHILD-DIGEST "), nil
		}
	}
	return "", fmt.Errorf("no digest in child output")
}

// TestC08Child is the child side of the cross-process relation.
func TestC08Child(t *testing.T) {
	path := os.Getenv("VERIF_CHILD_CASE")
	if path == "" {
		t.Skip()
	}
	raw, err := os.ReadFile(path)
	if err != nil {
		t.Fatal(err)
	}
	var c c08Case
	if err := json.Unmarshal(raw, &c); err != nil {
		t.Fatal(err)
	}
	o := sim.Run(c.Cfg, c.Case.Prog.Text(), c.Case.Init(), sim.BudgetFor(refSteps(&c.Case)), nil)
	fmt.Printf("CHILD-DIGEST %s\n", digest(o))
}

func init() {
	hx.Register("c08", func(raw json.RawMessage) error {
		var c c08Case
		if err := json.Unmarshal(raw, &c); err != nil {
			return err
		}
		return c08Judge(c)
	})
}

func TestC08(t *testing.T) {
	h := hx.Begin(t, "C08", "determinism")
	cfgs := sim.AllConfigs()
	rapid.Check(t, func(rt *rapid.T) {
		p := drawProfile(rt, []gen.Profile{gen.SHADOWSLOW, gen.PRESSURELOAD, gen.MEM, gen.MEMSAFE, gen.REG}, []int{35, 20, 20, 10, 15})
		// half of the programs carry a fault probe (used by the chain relation)
		p.FaultProbe = rapid.Bool().Draw(rt, "faultprobe")
		c := gen.Program(rt, p)
		r, ok := refRun(c)
		if !ok {
			h.Skip()
			rt.Skip("reference run leaves the domain")
		}
		// each case is judged on a drawn subset of configurations (the relations
		// cost a dozen runs each)
		k := rapid.IntRange(0, len(cfgs)-1).Draw(rt, "cfg0")
		rel := []string{"repeat", "after-others", "concurrent", "reuse-same", "reuse-other", "reuse-other-state", "concurrent", "reuse-other-state", "reuse-chain", "reuse-chain"}[int(gen.Mix(rapid.Uint64().Draw(rt, "relation"))%10)]
		if rapid.IntRange(0, 19).Draw(rt, "child") == 0 {
			rel = "child"
		}
		multi := false
		for _, s := range r.Trace {
			if s.Load || s.Store {
				multi = true
			}
		}
		h.Eval(hx.Hash(c.Text, c.Regs, c.MemSize, c.MemSeed, rel, k), multi || len(depKinds(&r)) > 0, "relation:"+rel, "profile:"+p.Name)
		h.Sample(c)
		for j := 0; j < 6; j++ {
			cfg := cfgs[(k+j*7)%len(cfgs)]
			if devOnly(cfg) {
				continue
			}
			if rel == "reuse-chain" {
				// the first machine of the chain: a forwarding variant at parallelism 3 or 4
				if j >= 2 {
					break
				}
				cfg = sim.Config{Variant: []string{"mvp6-1", "mvp6-2", "mvp6-3", "mvp7-0", "mvp7-1", "mvp8-0"}[(k+j*5)%6], Par: 3 + (k+j)%2}
			}
			h.Config(cfg.String())
			cc := c08Case{Case: *c, Cfg: cfg, Relation: rel, Other: cfgs[(k+j*7+11)%len(cfgs)]}
			if err := c08Judge(cc); err != nil {
				h.Fail("c08", cc, caseSize(c), err.Error())
				rt.Fatalf("%v\n%s", err, c.Text)
			}
		}
	})
}
