package checks

// C03, C04, C05, C07, C09, C10 — processor-level properties decided by the
// same differential engine as C01 with property-specific generators,
// configurations, oracles and non-triviality rules.

import (
	"fmt"
	"testing"

	"pgregory.net/rapid"

	"verif/gen"
	"verif/hx"
	"verif/ref"
	"verif/sim"
)

func configsWhere(pred func(v string) bool) []sim.Config {
	var out []sim.Config
	for _, c := range sim.AllConfigs() {
		if pred(c.Variant) {
			out = append(out, c)
		}
	}
	return out
}

// ---------------------------------------------------------------- C03

// shadowHostile reports whether some taken conditional branch or jump of the
// run has a shadow whose execution would change the compared state: the
// reference is re-run with that transfer forced to fall through.
func shadowHostile(c *gen.Case, r *ref.Result) (taken int, hostile bool) {
	tried := 0
	for i, s := range r.Trace {
		if !(s.Taken && (s.CondBr || s.Jump)) {
			continue
		}
		taken++
		if tried >= 6 || hostile {
			continue
		}
		tried++
		alt := ref.Run(&c.Prog, c.Init(), ref.Options{MaxSteps: 20000, Force: true, ForceStep: i})
		if alt.Err != nil || alt.Reg != r.Reg {
			hostile = true
			continue
		}
		for k := range alt.Mem {
			if alt.Mem[k] != r.Mem[k] {
				hostile = true
				break
			}
		}
	}
	return
}

func TestC03(t *testing.T) {
	h := hx.Begin(t, "C03", "shadow")
	cfgs := sim.AllConfigs() // MVP-1..3 cannot speculate: they run as a sanity anchor
	rapid.Check(t, func(rt *rapid.T) {
		p := drawProfile(rt, []gen.Profile{gen.SHADOWSLOW, gen.SHADOW}, []int{60, 40})
		c := gen.Program(rt, p)
		r, ok := refRun(c)
		if !ok {
			h.Skip()
			rt.Skip("reference run leaves the domain: ", r.Err)
		}
		taken, hostile := shadowHostile(c, &r)
		cls := []string{"profile:" + p.Name}
		if c.Meta["slowbranch"] > 0 {
			cls = append(cls, "slow-branch")
		}
		if c.Meta["jump"] > 0 {
			cls = append(cls, "jump")
		}
		if c.Meta["loop"] > 0 {
			cls = append(cls, "loop-backedge-shadow")
		}
		h.Eval(hx.Hash(c.Text, c.Regs, c.MemSize, c.MemSeed), taken > 0 && hostile, cls...)
		h.Sample(c)
		runAllConfigs(h, rt, c, &r, "C03", cfgs)
	})
}

// ---------------------------------------------------------------- C04

// depKinds counts the register dependences at dynamic distance <= 4.
func depKinds(r *ref.Result) map[string]int {
	out := map[string]int{}
	tr := r.Trace
	for j := range tr {
		for d := 1; d <= 4 && j-d >= 0; d++ {
			i := j - d
			a, b := tr[i], tr[j]
			if a.Rd > 0 {
				for _, x := range b.Reads {
					if x == a.Rd {
						out["raw"]++
						if a.Load {
							out["raw-load-producer"]++
						}
						if d == 1 && i > 0 && tr[i-1].Rd > 0 {
							for _, y := range a.Reads {
								if y == tr[i-1].Rd {
									out["chained"]++
								}
							}
						}
					}
				}
				if b.Rd == a.Rd {
					out["waw"]++
				}
			}
			if b.Rd > 0 {
				for _, x := range a.Reads {
					if x == b.Rd {
						out["war"]++
					}
				}
			}
		}
	}
	return out
}

func TestC04(t *testing.T) {
	h := hx.Begin(t, "C04", "pressure")
	cfgs := sim.AllConfigs()
	rapid.Check(t, func(rt *rapid.T) {
		p := drawProfile(rt, []gen.Profile{gen.PRESSURE, gen.PRESSURELOAD, gen.PRESSUREMEM}, []int{40, 35, 25})
		c := gen.Program(rt, p)
		r, ok := refRun(c)
		if !ok {
			h.Skip()
			rt.Skip("reference run leaves the domain: ", r.Err)
		}
		kinds := depKinds(&r)
		var cls []string
		for k := range kinds {
			cls = append(cls, "dep:"+k)
		}
		cls = append(cls, "profile:"+p.Name)
		h.Eval(hx.Hash(c.Text, c.Regs, c.MemSize, c.MemSeed), len(kinds) > 0, cls...)
		h.Sample(c)
		text := c.Prog.Text()
		for _, cfg := range cfgs {
			if devOnly(cfg) {
				continue
			}
			if f := excludedBy("C04", c, &r, cfg); f != "" {
				h.Exclude(f)
				continue
			}
			h.Config(cfg.String())
			// three runs in one process: identical to each other and to the
			// reference (a schedule-dependent choice shows even if one order is right)
			var first sim.Outcome
			for k := 0; k < 3; k++ {
				out := sim.Run(cfg, text, c.Init(), sim.BudgetFor(r.Steps), nil)
				if d := sim.Diff(out, r); d != "" {
					pc := progCase{Case: *c, Cfg: cfg, Oracle: "diff"}
					h.Fail("prog", pc, caseSize(c), fmt.Sprintf("%s (run %d of 3): %s", cfg, k+1, d))
					rt.Fatalf("%s run %d: %s\n%s", cfg, k+1, d, c.Text)
				}
				if k == 0 {
					first = out
				} else if out.Cycles != first.Cycles {
					pc := progCase{Case: *c, Cfg: cfg, Oracle: "diff"}
					h.Fail("prog", pc, caseSize(c), fmt.Sprintf("%s: cycle count differs between repetitions: %d then %d", cfg, first.Cycles, out.Cycles))
					rt.Fatalf("%s: cycles %d vs %d\n%s", cfg, first.Cycles, out.Cycles, c.Text)
				}
			}
		}
	})
}

// ---------------------------------------------------------------- C05

// evictReread replays an ideal LRU of 16 lines of 64 bytes (the smallest data
// cache of any variant) over the trace and reports the working-set size in
// lines and whether some line is written, evicted and read again.
func evictReread(r *ref.Result) (lines int, wer bool) {
	var lru []int32
	dirtyEvicted := map[int32]bool{}
	dirty := map[int32]bool{}
	seen := map[int32]bool{}
	for _, s := range r.Trace {
		if !s.Load && !s.Store {
			continue
		}
		l := s.Addr / 64
		seen[l] = true
		idx := -1
		for i, x := range lru {
			if x == l {
				idx = i
			}
		}
		if idx >= 0 {
			lru = append(lru[:idx], lru[idx+1:]...)
		} else if s.Load && dirtyEvicted[l] {
			wer = true
		}
		lru = append([]int32{l}, lru...)
		if len(lru) > 16 {
			v := lru[16]
			lru = lru[:16]
			if dirty[v] {
				dirtyEvicted[v] = true
				delete(dirty, v)
			}
		}
		if s.Store {
			dirty[l] = true
		}
	}
	return len(seen), wer
}

func TestC05(t *testing.T) {
	h := hx.Begin(t, "C05", "cache")
	cfgs := configsWhere(sim.HasDataCache)
	rapid.Check(t, func(rt *rapid.T) {
		p := drawProfile(rt, []gen.Profile{gen.CACHE, gen.WALK, gen.MEMSAFE, gen.OWNER}, []int{45, 27, 18, 10})
		if p.Name == "MEMSAFE" {
			p.MemSizes = []int{2048, 4096, 8192}
		}
		c := gen.Program(rt, p)
		r, ok := refRun(c)
		if !ok {
			h.Skip()
			rt.Skip("reference run leaves the domain: ", r.Err)
		}
		lines, wer := evictReread(&r)
		cls := []string{"profile:" + p.Name}
		if lines > 16 {
			cls = append(cls, "working-set>16-lines")
		}
		if lines > 64 {
			cls = append(cls, "working-set>64-lines")
		}
		if wer {
			cls = append(cls, "written-evicted-reread")
		}
		h.Eval(hx.Hash(c.Text, c.Regs, c.MemSize, c.MemSeed), lines > 16 && wer, cls...)
		h.Sample(c)
		runAllConfigs(h, rt, c, &r, "C05", cfgs)
	})
}

// ---------------------------------------------------------------- C09

// slowTail: at the exit point at least one of the last four executed
// instructions needs >= 3 more cycles (a load, or a store: both go through the
// memory system).
func slowTail(r *ref.Result) (bool, []string) {
	n := len(r.Trace)
	var cls []string
	slow := false
	for i := n - 1; i >= 0 && i >= n-5; i-- {
		s := r.Trace[i]
		if s.Load {
			slow = true
			cls = append(cls, "tail:load")
		}
		if s.Store {
			slow = true
			cls = append(cls, "tail:store")
		}
	}
	return slow, cls
}

func TestC09(t *testing.T) {
	h := hx.Begin(t, "C09", "tail")
	cfgs := configsWhere(sim.IsPipelined)
	rapid.Check(t, func(rt *rapid.T) {
		c := gen.TailProgram(rt, gen.TAIL)
		r, ok := refRun(c)
		if !ok {
			h.Skip()
			rt.Skip("reference run leaves the domain: ", r.Err)
		}
		slow, cls := slowTail(&r)
		cls = append(cls, "exit:"+r.Exit)
		if c.Meta["exit_branch_ret"] > 0 {
			cls = append(cls, "exit:branch-to-ret")
		}
		h.Eval(hx.Hash(c.Text, c.Regs, c.MemSize, c.MemSeed), slow, cls...)
		h.Sample(c)
		runAllConfigs(h, rt, c, &r, "C09", cfgs)
	})
}

// ---------------------------------------------------------------- C10

// conflicts classifies the conflicting access pairs of the run: byte overlap
// between a store and a later load, a load and a later store, two stores, at
// dynamic distance <= 14.
func conflicts(r *ref.Result) []string {
	var cls []string
	tr := r.Trace
	seen := map[string]bool{}
	for j := range tr {
		b := tr[j]
		if !b.Load && !b.Store {
			continue
		}
		for d := 1; d <= 14 && j-d >= 0; d++ {
			a := tr[j-d]
			if !a.Load && !a.Store {
				continue
			}
			if !(a.Store || b.Store) {
				continue
			}
			if a.Addr < b.Addr+b.Size && b.Addr < a.Addr+a.Size {
				kind := "load->store"
				if a.Store && b.Load {
					kind = "store->load"
				} else if a.Store && b.Store {
					kind = "store->store"
				}
				bucket := "d1"
				switch {
				case d >= 8:
					bucket = "d8+"
				case d >= 4:
					bucket = "d4-7"
				case d >= 2:
					bucket = "d2-3"
				}
				k := "conflict:" + kind + ":" + bucket
				if !seen[k] {
					seen[k] = true
					cls = append(cls, k)
				}
			}
		}
	}
	return cls
}

func TestC10(t *testing.T) {
	h := hx.Begin(t, "C10", "pairs")
	// MVP-4/5 for the write-buffer path, every multi-issue variant at
	// parallelism 1..4
	cfgs := configsWhere(sim.IsPipelined)
	rapid.Check(t, func(rt *rapid.T) {
		c := gen.PairProgram(rt, gen.PAIR)
		r, ok := refRun(c)
		if !ok {
			h.Skip()
			rt.Skip("reference run leaves the domain: ", r.Err)
		}
		cls := conflicts(&r)
		if c.Meta["pair_separated"] > 0 {
			cls = append(cls, "pair:separated-by-taken-branch")
		}
		h.Eval(hx.Hash(c.Text, c.Regs, c.MemSize, c.MemSeed), len(conflicts(&r)) > 0, cls...)
		h.Sample(c)
		runAllConfigs(h, rt, c, &r, "C10", cfgs)
	})
}

// ---------------------------------------------------------------- C07

func TestC07Terminates(t *testing.T) {
	h := hx.Begin(t, "C07", "terminates")
	cfgs := sim.AllConfigs()
	rapid.Check(t, func(rt *rapid.T) {
		p := drawProfile(rt, []gen.Profile{gen.REG, gen.MEM, gen.SHADOW, gen.WALK, gen.SHADOWSLOW, gen.MEMSAFE, gen.OWNER}, []int{18, 22, 15, 10, 15, 12, 8})
		c := gen.Program(rt, p)
		r, ok := refRun(c)
		if !ok {
			h.Skip()
			rt.Skip("reference run leaves the domain: ", r.Err)
		}
		miss, taken := false, false
		for _, s := range r.Trace {
			if s.Load || s.Store {
				miss = true
			}
			if s.Taken {
				taken = true
			}
		}
		h.Eval(hx.Hash(c.Text, c.Regs, c.MemSize, c.MemSeed), miss || taken, "profile:"+p.Name)
		h.Sample(c)
		for _, cfg := range cfgs {
			if devOnly(cfg) {
				continue
			}
			if f := excludedBy("C07", c, &r, cfg); f != "" {
				h.Exclude(f)
				continue
			}
			h.Config(cfg.String())
			out := sim.Run(cfg, c.Prog.Text(), c.Init(), sim.BudgetFor(r.Steps), nil)
			if out.Kind != sim.OK {
				d := sim.Diff(out, r)
				pc := progCase{Case: *c, Cfg: cfg, Oracle: "term"}
				h.Fail("prog", pc, caseSize(c), cfg.String()+": "+d)
				rt.Fatalf("%s: %s\n%s", cfg, d, c.Text)
			}
		}
	})
}

func TestC07Errors(t *testing.T) {
	h := hx.Begin(t, "C07", "errors")
	cfgs := sim.AllConfigs()
	rapid.Check(t, func(rt *rapid.T) {
		c := gen.FaultProgram(rt, gen.ERR)
		r := ref.Run(&c.Prog, c.Init(), ref.Options{MaxSteps: 20000, Trace: true})
		if r.Err != ref.ErrDivZero && r.Err != ref.ErrLabel {
			h.Skip()
			rt.Skip("the program does not reach its fault: ", r.Err)
		}
		cls := []string{"err:" + r.Err.Error()}
		for k := range c.Meta {
			if len(k) > 6 && k[:6] == "fault_" {
				cls = append(cls, k)
			}
		}
		h.Eval(hx.Hash(c.Text, c.Regs, c.MemSize, c.MemSeed), true, cls...)
		h.Sample(c)
		for _, cfg := range cfgs {
			if devOnly(cfg) {
				continue
			}
			if f := excludedBy("C07", c, &r, cfg); f != "" {
				h.Exclude(f)
				continue
			}
			h.Config(cfg.String())
			if err := judgeDefinedError(c, cfg, &r); err != nil {
				pc := progCase{Case: *c, Cfg: cfg, Oracle: "err"}
				h.Fail("prog", pc, caseSize(c), err.Error())
				rt.Fatalf("%v\n%s", err, c.Text)
			}
		}
	})
}

// TestC04Forward: the forwarding channel takes precedence over the register
// file for every instruction and every source operand. One-instruction
// programs (the C02 machinery): the true operand value is delivered through
// Forward while the register file holds another value; the architectural effect
// must be the one of the true value. Enumerated: every mnemonic that reads a
// register x source operand x lattice values x plain / rename-table context.
func TestC04Forward(t *testing.T) {
	h := hx.Begin(t, "C04", "forward")
	L := gen.Lattice
	for oi, op := range ref.Mnemonics {
		if oi%h.Env.Shards != h.Env.Shard {
			continue
		}
		sh := ref.Shape(op)
		for _, pat := range [][3]int{{5, 6, 7}, {5, 6, 6}, {6, 6, 7}, {7, 6, 7}} {
			for ai := 0; ai < len(L); ai += 3 {
				for bi := 0; bi < len(L); bi += 3 {
					a, b := L[ai], L[bi]
					for fwd := 1; fwd <= 2; fwd++ {
						in := ref.Ins{Op: op, Rd: pat[0], Rs1: pat[1], Rs2: pat[2]}
						c := c02Case{Ins: in, A: a, B: b, Pc: 0, Tgt: 40, Fwd: fwd}
						switch sh {
						case ref.ShapeI, ref.ShapeU, ref.ShapeJalr, ref.ShapeLoad, ref.ShapeStore:
							c.Ins.Imm = b
							c.B = L[(ai+bi)%len(L)]
						}
						if sh == ref.ShapeBr1 || sh == ref.ShapeBr2 || sh == ref.ShapeJ || sh == ref.ShapeJal {
							c.Ins.Label = "L"
						}
						if (op == "div" || op == "rem") && (b == 0 || (pat[2] == pat[1] && a == 0)) {
							continue
						}
						reg := in.Rs1
						if fwd == 2 {
							reg = in.Rs2
						}
						reads := false
						for _, r := range in.Reads() {
							if r == reg {
								reads = true
							}
						}
						if !reads {
							continue
						}
						for _, rat := range []bool{false, true} {
							c.RAT = rat
							c.Text = c.Ins.Text()
							h.Eval(hx.Hash(op, pat, a, b, fwd, rat), true, "op:"+op)
							h.Sample(c)
							if err := c02Judge(c); err != nil {
								h.Fail("c02", c, 0, "forwarded operand: "+err.Error())
								t.Fatalf("forwarded operand %d: %v", fwd, err)
							}
						}
					}
				}
			}
		}
	}
	h.Exhaustive()
}
