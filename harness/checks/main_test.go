package checks

import (
	"fmt"
	"os"
	"path/filepath"
	"testing"

	"verif/findings"
	"verif/hx"
	"verif/ref"

	"github.com/teivah/majorana/risc"
)

// TestReplay re-judges the replay file named by VERIF_REPLAY through the same
// oracle as the generating check, without the property library. It prints
// "REPLAY-VIOLATION <message>" when the case still violates the property.
func TestReplay(t *testing.T) {
	e := hx.GetEnv()
	if e.Replay == "" {
		t.Skip("VERIF_REPLAY not set")
	}
	verdict, infra := hx.ReplayFile(e.Replay)
	if infra != nil {
		fmt.Printf("REPLAY-INFRA %v\n", infra)
		t.Fatalf("infrastructure: %v", infra)
	}
	if verdict != nil {
		fmt.Printf("REPLAY-VIOLATION %v\n", verdict)
		return
	}
	fmt.Println("REPLAY-PASS")
}

// TestWitnesses replays the witnesses of the known findings of the property
// VERIF_PROP and the committed regression inputs under replays/<prop>/. A
// witness that still fails yields a KNOWN-FINDING line; a regression input that
// fails is a violation.
func TestWitnesses(t *testing.T) {
	e := hx.GetEnv()
	if e.PropSel == "" {
		t.Skip("VERIF_PROP not set")
	}
	h := hx.Begin(t, e.PropSel, "witnesses")
	kf, err := findings.Load()
	if err != nil {
		t.Fatalf("known-findings: %v", err)
	}
	for _, fd := range kf.ForProperty(e.PropSel) {
		still := false
		for _, w := range fd.Witnesses {
			verdict, infra := hx.ReplayFile(filepath.Join(e.Root, w))
			if infra != nil {
				t.Fatalf("witness %s: %v", w, infra)
			}
			if verdict != nil {
				still = true
			}
		}
		if still {
			h.Known(fmt.Sprintf("KNOWN-FINDING: property=%s %s %s", e.PropSel, fd.ID, fd.What))
		} else if len(fd.Witnesses) > 0 {
			h.Note("finding %s: every witness passes now (repaired?)", fd.ID)
		}
	}
	files, _ := filepath.Glob(filepath.Join(e.Root, "replays", e.PropSel, "*.json"))
	for _, f := range files {
		verdict, infra := hx.ReplayFile(f)
		if infra != nil {
			t.Fatalf("regression input %s: %v", f, infra)
		}
		h.Evals(1)
		if verdict != nil {
			h.AddViolation("file", f, filepath.Base(f), verdict.Error())
			// the replay file already exists: point at it
			t.Errorf("regression input %s fails: %v", f, verdict)
		}
	}
}

// TestRefRegisterOrder pins the assumption that ref.RegNames is in the order
// of risc.RegisterType.
func TestRefRegisterOrder(t *testing.T) {
	for i, n := range ref.RegNames {
		app, err := risc.Parse("mv " + n + ", " + n)
		if err != nil {
			t.Fatal(err)
		}
		w := app.Instructions[0].WriteRegisters()
		if len(w) != 1 || int(w[0]) != i {
			t.Fatalf("register %s: got %v want %d", n, w, i)
		}
	}
}

func TestMain(m *testing.M) {
	os.Exit(m.Run())
}
