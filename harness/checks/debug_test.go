package checks

import (
	"encoding/json"
	"fmt"
	"os"
	"testing"

	"github.com/teivah/majorana/risc"

	"verif/evid"
	"verif/sim"
)

// TestDebugReplay is a development aid: it re-runs a "prog" replay file with
// the simulator's debug log enabled (VERIF_REPLAY, output on stdout).
func TestDebugReplay(t *testing.T) {
	path := os.Getenv("VERIF_DEBUG_REPLAY")
	if path == "" {
		t.Skip()
	}
	rp, err := evid.ReadReplay(path)
	if err != nil {
		t.Fatal(err)
	}
	var pc progCase
	if err := json.Unmarshal(rp.Case, &pc); err != nil {
		t.Fatal(err)
	}
	r, _ := refRun(&pc.Case)
	sim.DebugLog = true
	defer func() { sim.DebugLog = false }()
	out := sim.Run(pc.Cfg, pc.Case.Prog.Text(), pc.Case.Init(), 60000, nil)
	t.Logf("outcome %s %s\n%s", out.Kind, sim.Diff(out, r), out.Stack)
}

// TestDebugRepeat runs a c08 replay case several times and prints the outcomes.
func TestDebugRepeat(t *testing.T) {
	path := os.Getenv("VERIF_DEBUG_REPEAT")
	if path == "" {
		t.Skip()
	}
	rp, err := evid.ReadReplay(path)
	if err != nil {
		t.Fatal(err)
	}
	var c c08Case
	if err := json.Unmarshal(rp.Case, &c); err != nil {
		t.Fatal(err)
	}
	for k := 0; k < 6; k++ {
		o := sim.Run(c.Cfg, c.Case.Prog.Text(), c.Case.Init(), sim.BudgetFor(refSteps(&c.Case)), nil)
		t.Logf("%s %s cycles=%d err=%q", c.Cfg, o.Kind, o.Cycles, o.Err)
	}
}

// TestDebugRigMin greedily minimises a failing rig schedule (development aid).
func TestDebugRigMin(t *testing.T) {
	path := os.Getenv("VERIF_DEBUG_RIG")
	if path == "" {
		t.Skip()
	}
	rp, err := evid.ReadReplay(path)
	if err != nil {
		t.Fatal(err)
	}
	var c rigCase
	if err := json.Unmarshal(rp.Case, &c); err != nil {
		t.Fatal(err)
	}
	fails := func(c rigCase) bool { v, _ := runRig(c); return v != "" }
	if !fails(c) {
		t.Fatal("does not fail")
	}
	for changed := true; changed; {
		changed = false
		for i := range c.Reqs {
			d := c
			d.Reqs = append(append([]rigReq(nil), c.Reqs[:i]...), c.Reqs[i+1:]...)
			if fails(d) {
				c, changed = d, true
				break
			}
		}
		for i := range c.Reqs {
			d := c
			d.Reqs = append([]rigReq(nil), c.Reqs...)
			if d.Reqs[i].Delay > 0 {
				d.Reqs[i].Delay = 0
				if fails(d) {
					c, changed = d, true
				}
			}
		}
		if c.Cores > 2 {
			d := c
			d.Cores--
			if fails(d) {
				c, changed = d, true
			}
		}
	}
	v, _ := runRig(c)
	b, _ := json.Marshal(c)
	t.Logf("%s\n%s", v, b)
}

// TestDebugExcluded prints which finding (if any) excludes a prog replay case
// on its configuration, per property (development aid).
func TestDebugExcluded(t *testing.T) {
	path := os.Getenv("VERIF_DEBUG_EXCL")
	if path == "" {
		t.Skip()
	}
	rp, err := evid.ReadReplay(path)
	if err != nil {
		t.Fatal(err)
	}
	var pc progCase
	if err := json.Unmarshal(rp.Case, &pc); err != nil {
		t.Fatal(err)
	}
	r, _ := refRun(&pc.Case)
	for _, prop := range []string{"C01", "C07"} {
		t.Logf("%s on %s: excluded by %q", prop, pc.Cfg, excludedBy(prop, &pc.Case, &r, pc.Cfg))
	}
}

// TestDebugStale prints what a first run leaves inside the parsed program of a
// c08 replay case (development aid).
func TestDebugStale(t *testing.T) {
	path := os.Getenv("VERIF_DEBUG_STALE")
	if path == "" {
		t.Skip()
	}
	rp, err := evid.ReadReplay(path)
	if err != nil {
		t.Fatal(err)
	}
	var c c08Case
	if err := json.Unmarshal(rp.Case, &c); err != nil {
		t.Fatal(err)
	}
	text := c.Case.Prog.Text()
	app, _ := risc.Parse(text)
	fresh, _ := risc.Parse(text)
	o := sim.RunApp(c.Other, app, c.Case.Init(), sim.BudgetFor(refSteps(&c.Case)), nil)
	t.Logf("first run on %s: %s %s", c.Other, o.Kind, o.Err)
	for i := range app.Instructions {
		a, b := fmt.Sprintf("%+v", app.Instructions[i]), fmt.Sprintf("%+v", fresh.Instructions[i])
		if a != b {
			t.Logf("instruction %d: %s (fresh: %s)", i, a, b)
		}
	}
}
