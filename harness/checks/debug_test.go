package checks

import (
	"encoding/json"
	"os"
	"testing"

	"verif/evid"
	"verif/sim"
)

// TestDebugReplay is a development aid: it re-runs a "prog" replay file with
// the simulator's debug log enabled (VERIF_REPLAY, output on stdout).
func TestDebugReplay(t *testing.T) {
	path := os.Getenv("VERIF_DEBUG_REPLAY")
	if path == "" {
		t.Skip()
	}
	rp, err := evid.ReadReplay(path)
	if err != nil {
		t.Fatal(err)
	}
	var pc progCase
	if err := json.Unmarshal(rp.Case, &pc); err != nil {
		t.Fatal(err)
	}
	r, _ := refRun(&pc.Case)
	sim.DebugLog = true
	defer func() { sim.DebugLog = false }()
	out := sim.Run(pc.Cfg, pc.Case.Prog.Text(), pc.Case.Init(), 60000, nil)
	t.Logf("outcome %s %s\n%s", out.Kind, sim.Diff(out, r), out.Stack)
}
