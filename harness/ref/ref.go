// Package ref is the reference model of the majorana ISA: an interpreter written
// from the RISC-V unprivileged specification (RV32I + M subset) and from the
// property statements, not from risc/opcodes.go. It executes one instruction
// at a time in program order and records the dynamic trace.
package ref

import (
	"errors"
	"fmt"
	"sort"
	"strings"
)

// RegNames are the ABI names in architectural order x0..x31 (the same order as
// risc.RegisterType, checked by a test in the checks package).
var RegNames = [32]string{"zero", "ra", "sp", "gp", "tp", "t0", "t1", "t2", "s0", "s1", "a0", "a1", "a2", "a3", "a4", "a5", "a6", "a7", "s2", "s3", "s4", "s5", "s6", "s7", "s8", "s9", "s10", "s11", "t3", "t4", "t5", "t6"}

// Mnemonics is the full list of the 45 supported mnemonics.
var Mnemonics = []string{"add", "addi", "and", "andi", "auipc", "beq", "beqz", "bge", "bgeu", "ble", "blt", "bltu", "bne", "bnez", "div", "j", "jal", "jalr", "lui", "lb", "lh", "li", "lw", "nop", "mul", "mv", "or", "ori", "rem", "ret", "sb", "sh", "sll", "slli", "slt", "sltu", "slti", "sra", "srai", "srl", "srli", "sub", "sw", "xor", "xori"}

// Shape classes of the mnemonics.
const (
	ShapeR     = iota // op rd, rs1, rs2
	ShapeI            // op rd, rs1, imm
	ShapeU            // op rd, imm       (li, lui, auipc)
	ShapeMv           // mv rd, rs1
	ShapeLoad         // op rd, imm(rs1)
	ShapeStore        // op rs2, imm(rs1)  (sh: op rs2, imm, rs1)
	ShapeBr2          // op rs1, rs2, label
	ShapeBr1          // op rs1, label
	ShapeJ            // j label
	ShapeJal          // jal rd, label
	ShapeJalr         // jalr rd, rs1, imm
	ShapeNone         // nop, ret
)

// Shape returns the operand shape of a mnemonic.
func Shape(op string) int {
	switch op {
	case "add", "sub", "and", "or", "xor", "mul", "div", "rem", "slt", "sltu", "sll", "srl", "sra":
		return ShapeR
	case "addi", "andi", "ori", "xori", "slti", "slli", "srli", "srai":
		return ShapeI
	case "li", "lui", "auipc":
		return ShapeU
	case "mv":
		return ShapeMv
	case "lb", "lh", "lw":
		return ShapeLoad
	case "sb", "sh", "sw":
		return ShapeStore
	case "beq", "bne", "blt", "bge", "ble", "bltu", "bgeu":
		return ShapeBr2
	case "beqz", "bnez":
		return ShapeBr1
	case "j":
		return ShapeJ
	case "jal":
		return ShapeJal
	case "jalr":
		return ShapeJalr
	case "nop", "ret":
		return ShapeNone
	}
	panic("ref: unknown mnemonic " + op)
}

// Ins is one instruction of the generated subset.
type Ins struct {
	Op    string `json:"op"`
	Rd    int    `json:"rd,omitempty"`
	Rs1   int    `json:"rs1,omitempty"`
	Rs2   int    `json:"rs2,omitempty"`
	Imm   int32  `json:"imm,omitempty"`
	Label string `json:"label,omitempty"`
}

// Text renders the instruction in the assembler syntax accepted by risc.Parse.
func (in Ins) Text() string {
	R := func(i int) string { return RegNames[i] }
	switch Shape(in.Op) {
	case ShapeR:
		return fmt.Sprintf("%s %s, %s, %s", in.Op, R(in.Rd), R(in.Rs1), R(in.Rs2))
	case ShapeI, ShapeJalr:
		return fmt.Sprintf("%s %s, %s, %d", in.Op, R(in.Rd), R(in.Rs1), in.Imm)
	case ShapeU:
		return fmt.Sprintf("%s %s, %d", in.Op, R(in.Rd), in.Imm)
	case ShapeMv:
		return fmt.Sprintf("mv %s, %s", R(in.Rd), R(in.Rs1))
	case ShapeLoad:
		return fmt.Sprintf("%s %s, %d(%s)", in.Op, R(in.Rd), in.Imm, R(in.Rs1))
	case ShapeStore:
		if in.Op == "sh" {
			return fmt.Sprintf("sh %s, %d, %s", R(in.Rs2), in.Imm, R(in.Rs1))
		}
		return fmt.Sprintf("%s %s, %d(%s)", in.Op, R(in.Rs2), in.Imm, R(in.Rs1))
	case ShapeBr2:
		return fmt.Sprintf("%s %s, %s, %s", in.Op, R(in.Rs1), R(in.Rs2), in.Label)
	case ShapeBr1:
		return fmt.Sprintf("%s %s, %s", in.Op, R(in.Rs1), in.Label)
	case ShapeJ:
		return "j " + in.Label
	case ShapeJal:
		return fmt.Sprintf("jal %s, %s", R(in.Rd), in.Label)
	}
	return in.Op
}

// Reads returns the architectural source registers of the instruction.
func (in Ins) Reads() []int {
	switch Shape(in.Op) {
	case ShapeR, ShapeStore, ShapeBr2:
		return []int{in.Rs1, in.Rs2}
	case ShapeI, ShapeMv, ShapeLoad, ShapeBr1, ShapeJalr:
		return []int{in.Rs1}
	}
	return nil
}

// Writes returns the destination register, or -1.
func (in Ins) Writes() int {
	switch Shape(in.Op) {
	case ShapeR, ShapeI, ShapeU, ShapeMv, ShapeLoad, ShapeJal, ShapeJalr:
		return in.Rd
	}
	return -1
}

func (in Ins) IsLoad() bool  { return Shape(in.Op) == ShapeLoad }
func (in Ins) IsStore() bool { return Shape(in.Op) == ShapeStore }
func (in Ins) IsMem() bool   { return in.IsLoad() || in.IsStore() }
func (in Ins) IsCondBr() bool {
	s := Shape(in.Op)
	return s == ShapeBr2 || s == ShapeBr1
}
func (in Ins) IsJump() bool {
	s := Shape(in.Op)
	return s == ShapeJ || s == ShapeJal || s == ShapeJalr
}

// AccessSize is the byte width of a load/store mnemonic (0 otherwise).
func AccessSize(op string) int32 {
	switch op {
	case "lb", "sb":
		return 1
	case "lh", "sh":
		return 2
	case "lw", "sw":
		return 4
	}
	return 0
}

// Prog is a program: instructions plus labels (name -> index of the next
// instruction; index len(Ins) means "after the last instruction").
type Prog struct {
	Ins    []Ins          `json:"ins"`
	Labels map[string]int `json:"labels,omitempty"`
}

// Text renders the program; labels at one position are emitted in sorted
// order so the text is a pure function of the program.
func (p *Prog) Text() string {
	at := map[int][]string{}
	for l, i := range p.Labels {
		at[i] = append(at[i], l)
	}
	for _, ls := range at {
		sort.Strings(ls)
	}
	var sb strings.Builder
	for i, in := range p.Ins {
		for _, l := range at[i] {
			sb.WriteString(l + ":\n")
		}
		sb.WriteString("    " + in.Text() + "\n")
	}
	for _, l := range at[len(p.Ins)] {
		sb.WriteString(l + ":\n")
	}
	return sb.String()
}

// State is an architectural state.
type State struct {
	Reg [32]int32
	Mem []int8
}

// Step is one executed instruction of the dynamic trace.
type Step struct {
	Idx    int   // static index
	Pc     int32 // 4*Idx
	Rd     int   // destination register or -1
	Val    int32 // value written to Rd
	Reads  []int
	Addr   int32 // effective address of a load/store
	Size   int32
	Load   bool
	Store  bool
	CondBr bool
	Jump   bool
	Taken  bool // control transfer happened (taken conditional branch or jump)
	Next   int32
}

// Errors of the reference run. ErrDivZero and ErrLabel are the ISA's defined
// errors; the others mean the case is outside the well-formed domain.
var (
	ErrDivZero = errors.New("ref: division by zero")
	ErrLabel   = errors.New("ref: undefined label")
	ErrAccess  = errors.New("ref: access out of bounds or misaligned")
	ErrPC      = errors.New("ref: jump target outside the program or misaligned")
	ErrSteps   = errors.New("ref: step limit exceeded")
)

// Result of a reference run.
type Result struct {
	Reg    [32]int32
	Mem    []int8
	Steps  int
	Trace  []Step
	Exit   string // "ret" or "fallthrough"
	Err    error
	ErrIdx int // static index of the faulting instruction
}

// ALU computes the register result of a non-memory, non-control instruction
// from its source values. ok=false for division by zero.
func ALU(op string, a, b, imm, pc int32) (v int32, ok bool) {
	sh := func(x int32) uint32 { return uint32(x) & 31 }
	bit := func(c bool) int32 {
		if c {
			return 1
		}
		return 0
	}
	switch op {
	case "add":
		return a + b, true
	case "sub":
		return a - b, true
	case "and":
		return a & b, true
	case "or":
		return a | b, true
	case "xor":
		return a ^ b, true
	case "mul":
		return int32(uint32(a) * uint32(b)), true
	case "div":
		if b == 0 {
			return 0, false
		}
		if a == -2147483648 && b == -1 {
			return a, true
		}
		return a / b, true
	case "rem":
		if b == 0 {
			return 0, false
		}
		if a == -2147483648 && b == -1 {
			return 0, true
		}
		return a % b, true
	case "slt":
		return bit(a < b), true
	case "sltu":
		return bit(uint32(a) < uint32(b)), true
	case "sll":
		return int32(uint32(a) << sh(b)), true
	case "srl":
		return int32(uint32(a) >> sh(b)), true
	case "sra":
		return a >> sh(b), true
	case "addi":
		return a + imm, true
	case "andi":
		return a & imm, true
	case "ori":
		return a | imm, true
	case "xori":
		return a ^ imm, true
	case "slti":
		return bit(a < imm), true
	case "slli":
		return int32(uint32(a) << sh(imm)), true
	case "srli":
		return int32(uint32(a) >> sh(imm)), true
	case "srai":
		return a >> sh(imm), true
	case "li":
		return imm, true
	case "lui":
		return int32(uint32(imm) << 12), true
	case "auipc":
		return pc + int32(uint32(imm)<<12), true
	case "mv":
		return a, true
	}
	panic("ref.ALU: " + op)
}

// Cond evaluates a conditional branch.
func Cond(op string, a, b int32) bool {
	switch op {
	case "beq":
		return a == b
	case "bne":
		return a != b
	case "blt":
		return a < b
	case "bge":
		return a >= b
	case "ble":
		return a <= b
	case "bltu":
		return uint32(a) < uint32(b)
	case "bgeu":
		return uint32(a) >= uint32(b)
	case "beqz":
		return a == 0
	case "bnez":
		return a != 0
	}
	panic("ref.Cond: " + op)
}

// LoadValue assembles the value of a load of the given mnemonic from memory.
func LoadValue(op string, mem []int8, a int32) int32 {
	switch op {
	case "lb":
		return int32(mem[a])
	case "lh":
		return int32(int16(uint16(uint8(mem[a])) | uint16(uint8(mem[a+1]))<<8))
	case "lw":
		return int32(uint32(uint8(mem[a])) | uint32(uint8(mem[a+1]))<<8 | uint32(uint8(mem[a+2]))<<16 | uint32(uint8(mem[a+3]))<<24)
	}
	panic("ref.LoadValue: " + op)
}

// StoreBytes returns the little-endian bytes a store writes.
func StoreBytes(op string, v int32) []int8 {
	u := uint32(v)
	switch op {
	case "sb":
		return []int8{int8(u)}
	case "sh":
		return []int8{int8(u), int8(u >> 8)}
	case "sw":
		return []int8{int8(u), int8(u >> 8), int8(u >> 16), int8(u >> 24)}
	}
	panic("ref.StoreBytes: " + op)
}

// Options of a reference run.
type Options struct {
	MaxSteps int
	Trace    bool
	// Force makes the control transfer at dynamic step number ForceStep fall
	// through instead (used by C03 to decide whether a shadow is hostile).
	Force     bool
	ForceStep int
}

// Machine is the stepping form of the reference model.
type Machine struct {
	P    *Prog
	Reg  [32]int32
	Mem  []int8
	Pc   int32
	Done bool   // the program has exited
	Exit string // "ret" or "fallthrough"
	Err  error
}

// NewMachine builds a machine in the initial state.
func NewMachine(p *Prog, init State) *Machine {
	m := &Machine{P: p, Reg: init.Reg, Mem: append([]int8(nil), init.Mem...)}
	m.Reg[0] = 0
	return m
}

// Clone copies the machine (memory included).
func (m *Machine) Clone() *Machine {
	c := *m
	c.Mem = append([]int8(nil), m.Mem...)
	return &c
}

// Step executes one instruction. forceFallThrough makes a control transfer
// fall through. It returns the step record; ok=false when the machine is done
// or has left the domain (m.Err set).
func (m *Machine) Step(forceFallThrough bool) (st Step, ok bool) {
	p := m.P
	n := int32(len(p.Ins))
	pc := m.Pc
	if m.Done || m.Err != nil {
		return st, false
	}
	if pc < 0 || pc%4 != 0 || pc/4 > n {
		m.Err = ErrPC
		return st, false
	}
	if pc/4 == n {
		m.Done, m.Exit = true, "fallthrough"
		return st, false
	}
	idx := int(pc / 4)
	in := p.Ins[idx]
	st = Step{Idx: idx, Pc: pc, Rd: -1, Reads: in.Reads()}
	next := pc + 4
	a, b := m.Reg[in.Rs1], m.Reg[in.Rs2]
	w := func(r int, v int32) {
		st.Rd, st.Val = r, v
		if r != 0 {
			m.Reg[r] = v
		}
	}
	target := func() (int32, bool) {
		t, ok := p.Labels[in.Label]
		if !ok {
			return 0, false
		}
		return int32(t) * 4, true
	}
	switch Shape(in.Op) {
	case ShapeR, ShapeI, ShapeU, ShapeMv:
		v, ok := ALU(in.Op, a, b, in.Imm, pc)
		if !ok {
			m.Err = ErrDivZero
			return st, false
		}
		w(in.Rd, v)
	case ShapeLoad:
		addr := a + in.Imm
		sz := AccessSize(in.Op)
		st.Load, st.Addr, st.Size = true, addr, sz
		if addr < 0 || int64(addr)+int64(sz) > int64(len(m.Mem)) || addr%sz != 0 {
			m.Err = ErrAccess
			return st, false
		}
		w(in.Rd, LoadValue(in.Op, m.Mem, addr))
	case ShapeStore:
		addr := a + in.Imm
		sz := AccessSize(in.Op)
		st.Store, st.Addr, st.Size = true, addr, sz
		if addr < 0 || int64(addr)+int64(sz) > int64(len(m.Mem)) || addr%sz != 0 {
			m.Err = ErrAccess
			return st, false
		}
		st.Val = b
		for i, by := range StoreBytes(in.Op, b) {
			m.Mem[int(addr)+i] = by
		}
	case ShapeBr2, ShapeBr1:
		st.CondBr = true
		if Cond(in.Op, a, b) && !forceFallThrough {
			t, ok := target()
			if !ok {
				m.Err = ErrLabel
				return st, false
			}
			next, st.Taken = t, true
		}
	case ShapeJ, ShapeJal:
		st.Jump = true
		t, ok := target()
		if !ok {
			m.Err = ErrLabel
			return st, false
		}
		if in.Op == "jal" {
			w(in.Rd, pc+4)
		}
		if !forceFallThrough {
			next, st.Taken = t, true
		}
	case ShapeJalr:
		st.Jump = true
		t := a + in.Imm
		w(in.Rd, pc+4)
		if !forceFallThrough {
			next, st.Taken = t, true
		}
	case ShapeNone:
		if in.Op == "ret" {
			st.Next = pc
			m.Done, m.Exit = true, "ret"
			return st, true
		}
	}
	st.Next = next
	m.Pc = next
	return st, true
}

// Run executes the program sequentially.
func Run(p *Prog, init State, opt Options) Result {
	if opt.MaxSteps == 0 {
		opt.MaxSteps = 20000
	}
	m := NewMachine(p, init)
	res := Result{}
	for {
		if res.Steps >= opt.MaxSteps && !m.Done {
			// one more probe: are we exactly at the exit?
			if m.Pc/4 == int32(len(p.Ins)) && m.Pc%4 == 0 {
				m.Done, m.Exit = true, "fallthrough"
			} else {
				m.Err = ErrSteps
			}
			break
		}
		st, ok := m.Step(opt.Force && opt.ForceStep == res.Steps)
		if !ok {
			res.ErrIdx = st.Idx
			break
		}
		res.Steps++
		if opt.Trace {
			res.Trace = append(res.Trace, st)
		}
		if m.Done {
			break
		}
	}
	res.Reg, res.Mem, res.Exit, res.Err = m.Reg, m.Mem, m.Exit, m.Err
	return res
}
