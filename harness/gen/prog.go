package gen

import (
	"fmt"

	"pgregory.net/rapid"

	"verif/ref"
)

// Case is a program-level test case: program, initial registers and memory.
// The memory image is a pure function of (MemSize, MemSeed) plus overrides, so
// that 16 KB images cost one draw.
type Case struct {
	Prog    ref.Prog       `json:"prog"`
	Regs    [32]int32      `json:"regs"`
	MemSize int            `json:"mem_size"`
	MemSeed uint64         `json:"mem_seed"`
	MemOver map[int]int8   `json:"mem_over,omitempty"`
	Profile string         `json:"profile,omitempty"`
	Text    string         `json:"text,omitempty"` // rendering of Prog, for the reader
	Meta    map[string]int `json:"meta,omitempty"`
}

// MemImage builds the initial memory image of a case.
func MemImage(size int, seed uint64, over map[int]int8) []int8 {
	m := make([]int8, size)
	if seed != 0 {
		for i := 0; i < size; i += 8 {
			x := Mix(seed + uint64(i/8)*0x9e3779b97f4a7c15)
			for k := 0; k < 8 && i+k < size; k++ {
				m[i+k] = int8(x >> (8 * k))
			}
		}
		if seed%4 == 1 { // small positive bytes only
			for i := range m {
				m[i] &= 0x3f
			}
		}
	}
	for a, v := range over {
		if a >= 0 && a < size {
			m[a] = v
		}
	}
	return m
}

// Init returns the initial architectural state of the case.
func (c *Case) Init() ref.State {
	st := ref.State{Reg: c.Regs, Mem: MemImage(c.MemSize, c.MemSeed, c.MemOver)}
	st.Reg[0] = 0
	return st
}

// Reserved registers of the builders (never in the random pool).
const (
	RegCnt  = 27 // s11: loop counter
	RegPtr  = 26 // s10: walking pointer
	RegCnt2 = 25 // s9: inner loop counter
	RegSum  = 24 // s8: checksum accumulator
	RegPtr2 = 23 // s7: second pointer
	// s6: divisor of the fault probe (Profile.FaultProbe): 1 in the case's
	// state; a harness that sets it to 0 turns the probe into a division by zero
	RegProbe = 22
)

var poolCandidates = []int{5, 6, 7, 10, 11, 12, 28, 29, 8, 9, 13, 14, 1, 30, 31, 18}

// Weights of the constructs a profile emits.
type Weights struct {
	Alu, Div, Load, Store, Branch, Jump, Call, Loop, Walk, Nop, EvictReread, Behind int
}

// Profile parameterises the program builder.
type Profile struct {
	Name          string
	MinLen        int // target static length (constructs are added until reached)
	MaxLen        int
	PoolMin       int
	PoolMax       int
	MemSizes      []int
	W             Weights
	TakenPct      int  // desired share of taken conditional branches
	Hostile       bool // shadows of taken branches hold hostile instructions
	OOBShadow     bool // hostile shadows may access out-of-bounds addresses
	ErrShadow     bool // hostile shadows may hold a division by the zero register
	ZeroRaPct     int  // chance (in %) that zero / ra join the pool
	MaxDyn        int  // bound on the dynamic instruction count
	LoadsOnly     bool
	NoSubword     bool
	LineSpread    bool // memory addresses spread over many lines (one role per line)
	SplitHalves   bool // loads read the lower half of memory, stores write the upper half
	SlowBranchPct int  // chance (in %) that a branch operand is produced by a load right before it
	FreshLinePct  int  // chance (in %) that a memory access goes to a line not touched before
	WidePoolPct   int  // chance (in %) of a wide register pool with destinations in rotation
	FaultProbe    bool // emit one "div zero, zero, s6" at a drawn point (s6 = 1: no effect)
}

// Builder constructs a program concolically: it knows the concrete
// architectural state at the current end of the program.
type Builder struct {
	t      *rapid.T
	P      Profile
	Prog   ref.Prog
	Init   ref.State
	pool   []int
	nlabel int
	cache  *ref.Result
	depth  int
	Meta   map[string]int
	noDest map[int]bool // registers that must not be written (reserved in the current scope)
	rotate bool         // destinations are taken from the pool in rotation
	next   int
}

// NewBuilder draws the pool, the initial registers and the memory image.
func NewBuilder(t *rapid.T, p Profile) (*Builder, *Case) {
	b := &Builder{t: t, P: p, Meta: map[string]int{}, noDest: map[int]bool{}}
	b.Prog.Labels = map[string]int{}
	n := rapid.IntRange(p.PoolMin, p.PoolMax).Draw(t, "pool")
	if p.WidePoolPct > 0 && rapid.IntRange(0, 99).Draw(t, "widepool") < p.WidePoolPct {
		// many registers, destinations taken in rotation: few WAW/WAR pairs, so
		// that the renaming variants are judged at parallelism >= 2 more often
		n = rapid.IntRange(8, 14).Draw(t, "widepooln")
		b.rotate = true
		b.Meta["widepool"]++
	}
	off := rapid.IntRange(0, len(poolCandidates)-1).Draw(t, "pooloff")
	for i := 0; i < n; i++ {
		b.pool = append(b.pool, poolCandidates[(off+i)%len(poolCandidates)])
	}
	c := &Case{Profile: p.Name}
	c.MemSize = rapid.SampledFrom(p.MemSizes).Draw(t, "memsize")
	switch rapid.IntRange(0, 3).Draw(t, "memkind") {
	case 0:
		c.MemSeed = 0
	default:
		c.MemSeed = rapid.Uint64Range(1, 1<<20).Draw(t, "memseed")
	}
	for _, r := range b.pool {
		c.Regs[r] = Value().Draw(t, "reg")
	}
	if rapid.IntRange(0, 99).Draw(t, "others") < 30 {
		for r := 1; r < 32; r++ {
			if c.Regs[r] == 0 && r < 23 {
				c.Regs[r] = int32(Mix(uint64(r)+c.MemSeed) >> 33)
			}
		}
	}
	b.Init = c.Init()
	return b, c
}

// Finish completes the case.
func (b *Builder) Finish(c *Case) {
	c.Prog = b.Prog
	c.Text = b.Prog.Text()
	c.Meta = b.Meta
}

func (b *Builder) emit(in ref.Ins) int {
	b.Prog.Ins = append(b.Prog.Ins, in)
	b.cache = nil
	return len(b.Prog.Ins) - 1
}

func (b *Builder) label() string {
	b.nlabel++
	return fmt.Sprintf("L%d", b.nlabel)
}

func (b *Builder) place(l string) { b.Prog.Labels[l] = len(b.Prog.Ins); b.cache = nil }

// Len is the current static length.
func (b *Builder) Len() int { return len(b.Prog.Ins) }

// State runs the reference on the program built so far and returns the
// architectural state at its end.
func (b *Builder) State() *ref.Result {
	if b.cache == nil {
		r := ref.Run(&b.Prog, b.Init, ref.Options{MaxSteps: 50000})
		b.cache = &r
	}
	return b.cache
}

// Valid reports whether the program built so far runs without leaving the
// domain.
func (b *Builder) Valid() bool { return b.State().Err == nil }

func (b *Builder) reg(label string) int {
	zr := rapid.IntRange(0, 99).Draw(b.t, label+"z")
	if zr < b.P.ZeroRaPct {
		if zr%2 == 0 {
			return 0
		}
		return 1
	}
	return b.pool[rapid.IntRange(0, len(b.pool)-1).Draw(b.t, label)]
}

func (b *Builder) dest(label string) int {
	if b.rotate && rapid.IntRange(0, 9).Draw(b.t, label+"rot") != 0 {
		for i := 0; i < len(b.pool); i++ {
			r := b.pool[b.next%len(b.pool)]
			b.next++
			if !b.noDest[r] && r != 0 {
				return r
			}
		}
	}
	for i := 0; i < 4; i++ {
		r := b.reg(label)
		if !b.noDest[r] {
			return r
		}
	}
	for _, r := range b.pool {
		if !b.noDest[r] {
			return r
		}
	}
	return 0
}

var aluR = []string{"add", "sub", "and", "or", "xor", "mul", "slt", "sltu", "sll", "srl", "sra"}
var aluI = []string{"addi", "andi", "ori", "xori", "slti", "slli", "srli", "srai"}
var aluU = []string{"li", "lui", "auipc"}

// Alu emits one register-only instruction.
func (b *Builder) Alu() {
	switch rapid.IntRange(0, 9).Draw(b.t, "alukind") {
	case 0, 1, 2, 3:
		b.emit(ref.Ins{Op: rapid.SampledFrom(aluR).Draw(b.t, "op"), Rd: b.dest("rd"), Rs1: b.reg("rs1"), Rs2: b.reg("rs2")})
	case 4, 5, 6:
		b.emit(ref.Ins{Op: rapid.SampledFrom(aluI).Draw(b.t, "op"), Rd: b.dest("rd"), Rs1: b.reg("rs1"), Imm: Value().Draw(b.t, "imm")})
	case 7:
		b.emit(ref.Ins{Op: rapid.SampledFrom(aluU).Draw(b.t, "op"), Rd: b.dest("rd"), Imm: Value().Draw(b.t, "imm")})
	case 8:
		b.emit(ref.Ins{Op: "mv", Rd: b.dest("rd"), Rs1: b.reg("rs1")})
	default:
		if b.P.W.Nop > 0 {
			b.emit(ref.Ins{Op: "nop"})
		} else {
			b.emit(ref.Ins{Op: "add", Rd: b.dest("rd"), Rs1: b.reg("rs1"), Rs2: b.reg("rs2")})
		}
	}
}

// Div emits a div or rem whose divisor is known to be non-zero (top level
// only, where the concrete state is known).
func (b *Builder) Div() {
	st := b.State()
	if st.Err != nil || b.depth > 0 {
		b.Alu()
		return
	}
	var cands []int
	for _, r := range b.pool {
		if st.Reg[r] != 0 {
			cands = append(cands, r)
		}
	}
	if len(cands) == 0 {
		b.emit(ref.Ins{Op: "li", Rd: b.dest("rd"), Imm: 7})
		return
	}
	rs2 := cands[rapid.IntRange(0, len(cands)-1).Draw(b.t, "divisor")]
	op := rapid.SampledFrom([]string{"div", "rem"}).Draw(b.t, "op")
	b.emit(ref.Ins{Op: op, Rd: b.dest("rd"), Rs1: b.reg("rs1"), Rs2: rs2})
}

var loadOps = []string{"lw", "lb", "lh"}
var storeOps = []string{"sw", "sb", "sh"}

// addr draws a naturally aligned in-bounds effective address.
func (b *Builder) addr(size int32, label string) int32 {
	memSize := int32(len(b.Init.Mem))
	n := memSize / size
	if b.P.LineSpread {
		// pick the line first so that all lines are equally likely
		lines := (memSize + 63) / 64
		line := rapid.Int32Range(0, lines-1).Draw(b.t, label+"line")
		per := int32(64) / size
		if (line+1)*64 > memSize {
			per = (memSize - line*64) / size
		}
		if per < 1 {
			per = 1
		}
		return line*64 + rapid.Int32Range(0, per-1).Draw(b.t, label+"off")*size
	}
	return rapid.Int32Range(0, n-1).Draw(b.t, label) * size
}

func (b *Builder) memOp(ops []string) string {
	if b.P.NoSubword {
		return ops[0]
	}
	return rapid.SampledFrom(ops).Draw(b.t, "memop")
}

// baseFor picks a base register and the offset reaching the effective address
// ea from the register's current value. At depth > 0 (inside a loop or an
// executed region whose state is not tracked) only the zero base is used.
func (b *Builder) baseFor(ea int32) (int, int32) {
	if b.depth > 0 || rapid.IntRange(0, 2).Draw(b.t, "zbase") == 0 {
		return 0, ea
	}
	st := b.State()
	if st.Err != nil {
		return 0, ea
	}
	base := b.pool[rapid.IntRange(0, len(b.pool)-1).Draw(b.t, "base")]
	return base, ea - st.Reg[base]
}

// Load emits a load from a valid address.
func (b *Builder) Load() {
	op := b.memOp(loadOps)
	ea := b.addr(ref.AccessSize(op), "ea")
	if b.P.SplitHalves {
		ea = ea % (int32(len(b.Init.Mem)) / 2)
	}
	base, off := b.baseFor(ea)
	b.emit(ref.Ins{Op: op, Rd: b.dest("rd"), Rs1: base, Imm: off})
}

// Store emits a store to a valid address.
func (b *Builder) Store() {
	op := b.memOp(storeOps)
	ea := b.addr(ref.AccessSize(op), "ea")
	if b.P.SplitHalves {
		half := int32(len(b.Init.Mem)) / 2
		ea = half + ea%half
	}
	base, off := b.baseFor(ea)
	b.emit(ref.Ins{Op: op, Rs2: b.reg("src"), Rs1: base, Imm: off})
}

// Hostile emits one instruction meant to sit on a wrong path: it must never
// execute. It may write registers, store anywhere in bounds, load from any
// address, divide by a zero register, jump with link or return.
func (b *Builder) Hostile(endLabel string) {
	k := rapid.IntRange(0, 13).Draw(b.t, "hostile")
	memSize := int32(len(b.Init.Mem))
	switch k {
	case 0, 1, 2:
		b.emit(ref.Ins{Op: "li", Rd: b.dest("rd"), Imm: Value().Draw(b.t, "imm")})
	case 3:
		b.emit(ref.Ins{Op: "add", Rd: b.dest("rd"), Rs1: b.reg("rs1"), Rs2: b.reg("rs2")})
	case 4, 5:
		op := b.memOp(storeOps)
		ea := b.addr(ref.AccessSize(op), "ea")
		b.emit(ref.Ins{Op: op, Rs2: b.reg("src"), Rs1: 0, Imm: ea})
	case 6:
		op := b.memOp(loadOps)
		ea := b.addr(ref.AccessSize(op), "ea")
		b.emit(ref.Ins{Op: op, Rd: b.dest("rd"), Rs1: 0, Imm: ea})
	case 7:
		if b.P.OOBShadow {
			ea := rapid.SampledFrom([]int32{memSize, memSize + 64, memSize * 4, -4, -64, -1 << 20, 1 << 28}).Draw(b.t, "oob")
			b.emit(ref.Ins{Op: "lw", Rd: b.dest("rd"), Rs1: 0, Imm: ea})
		} else {
			b.emit(ref.Ins{Op: "lw", Rd: b.dest("rd"), Rs1: 0, Imm: b.addr(4, "ea")})
		}
	case 8:
		if b.P.ErrShadow {
			b.emit(ref.Ins{Op: rapid.SampledFrom([]string{"div", "rem"}).Draw(b.t, "op"), Rd: b.dest("rd"), Rs1: b.reg("rs1"), Rs2: 0})
		} else {
			b.emit(ref.Ins{Op: "sub", Rd: b.dest("rd"), Rs1: b.reg("rs1"), Rs2: b.reg("rs2")})
		}
	case 9:
		b.emit(ref.Ins{Op: "jal", Rd: rapid.SampledFrom([]int{0, 1}).Draw(b.t, "link"), Label: endLabel})
	case 10:
		b.emit(ref.Ins{Op: "mul", Rd: b.dest("rd"), Rs1: b.reg("rs1"), Rs2: b.reg("rs2")})
	case 11:
		b.emit(ref.Ins{Op: "beq", Rs1: b.reg("rs1"), Rs2: b.reg("rs2"), Label: endLabel})
	case 12:
		b.emit(ref.Ins{Op: "ret"})
	default:
		b.emit(ref.Ins{Op: "jalr", Rd: rapid.SampledFrom([]int{0, 1}).Draw(b.t, "link"), Rs1: b.reg("rs1"), Imm: 4 * rapid.Int32Range(0, 60).Draw(b.t, "imm")})
	}
}

var condOps = []string{"beq", "bne", "blt", "bge", "ble", "bltu", "bgeu", "beqz", "bnez"}

func negate(in ref.Ins) ref.Ins {
	switch in.Op {
	case "beq":
		in.Op = "bne"
	case "bne":
		in.Op = "beq"
	case "blt":
		in.Op = "bge"
	case "bge":
		in.Op = "blt"
	case "bltu":
		in.Op = "bgeu"
	case "bgeu":
		in.Op = "bltu"
	case "beqz":
		in.Op = "bnez"
	case "bnez":
		in.Op = "beqz"
	case "ble": // !(a <= b)  ==  b < a
		in.Op = "blt"
		in.Rs1, in.Rs2 = in.Rs2, in.Rs1
	}
	return in
}

// atom emits one non-control construct valid in the current state.
func (b *Builder) atom() {
	w := b.P.W
	total := w.Alu + w.Div + w.Load + w.Store
	if total == 0 {
		b.Alu()
		return
	}
	x := rapid.IntRange(0, total-1).Draw(b.t, "atom")
	switch {
	case x < w.Alu:
		b.Alu()
	case x < w.Alu+w.Div:
		b.Div()
	case x < w.Alu+w.Div+w.Load:
		b.Load()
	default:
		if b.P.LoadsOnly {
			b.Load()
		} else {
			b.Store()
		}
	}
}

// Branch emits a forward conditional branch over a shadow of 1..4
// instructions. The outcome is drawn first and the condition is adjusted to
// produce it; a skipped shadow is hostile when the profile says so.
func (b *Builder) Branch() {
	st := b.State()
	known := st.Err == nil && b.depth == 0
	in := ref.Ins{Op: rapid.SampledFrom(condOps).Draw(b.t, "cond"), Rs1: b.reg("rs1"), Rs2: b.reg("rs2")}
	if ref.Shape(in.Op) == ref.ShapeBr1 {
		in.Rs2 = 0
	}
	if known && b.P.SlowBranchPct > 0 && rapid.IntRange(0, 99).Draw(b.t, "slowbr") < b.P.SlowBranchPct {
		// the operand comes from a load issued right before the branch (hit or
		// miss), or from an ALU instruction: the branch resolves late
		opnd := in.Rs1
		if opnd == 0 || b.noDest[opnd] {
			opnd = b.dest("slowopnd")
			in.Rs1 = opnd
		}
		if opnd != 0 {
			switch rapid.IntRange(0, 3).Draw(b.t, "slowkind") {
			case 0:
				b.emit(ref.Ins{Op: "addi", Rd: opnd, Rs1: b.reg("rs1"), Imm: rapid.Int32Range(-2, 2).Draw(b.t, "imm")})
			default:
				op := b.memOp(loadOps)
				ea := b.addr(ref.AccessSize(op), "ea")
				base, off := b.baseFor(ea)
				b.emit(ref.Ins{Op: op, Rd: opnd, Rs1: base, Imm: off})
				b.Meta["slowbranch"]++
			}
			st = b.State()
			known = st.Err == nil
		}
	}
	// the Spectre-like gadget: a register set before the branch, rewritten in
	// the shadow, consumed (as a load base or an ALU operand) right after the
	// join — on the wrong path the consumer runs with the shadow's value
	gadget := 0
	var ga, gb, gc int32
	if known && b.P.Hostile && b.depth == 0 && rapid.IntRange(0, 3).Draw(b.t, "gadget") == 0 {
		for _, r := range b.pool {
			if r != in.Rs1 && r != in.Rs2 && r != 0 && !b.noDest[r] {
				gadget = r
				break
			}
		}
		if gadget != 0 {
			words := int32(len(b.Init.Mem)) / 4
			lim := words/2 - 1
			if lim > 60 {
				lim = 60
			}
			ga = 4 * rapid.Int32Range(0, lim).Draw(b.t, "ga")
			gb = 4 * rapid.Int32Range(0, lim).Draw(b.t, "gb")
			gc = 4 * rapid.Int32Range(0, lim).Draw(b.t, "gc")
			b.emit(ref.Ins{Op: "li", Rd: gadget, Imm: ga})
			st = b.State()
			known = st.Err == nil
		}
	}
	wantTaken := rapid.IntRange(0, 99).Draw(b.t, "taken") < b.P.TakenPct
	if gadget != 0 {
		wantTaken = true
	}
	taken := false
	if known {
		taken = ref.Cond(in.Op, st.Reg[in.Rs1], st.Reg[in.Rs2])
		if taken != wantTaken {
			in = negate(in)
			taken = !taken
		}
		if taken {
			b.Meta["taken"]++
		} else {
			b.Meta["nottaken"]++
		}
	}
	l := b.label()
	in.Label = l
	b.emit(in)
	k := rapid.IntRange(1, 4).Draw(b.t, "shadowlen")
	if gadget == 0 && rapid.IntRange(0, 11).Draw(b.t, "tonext") == 0 {
		// the target is the next instruction: taken or not, the path is the same
		// and nothing may be squashed or rolled back
		k = 0
		b.Meta["branch_to_next"]++
	}
	if k > 0 && known && taken && b.P.Hostile && gadget == 0 && rapid.IntRange(0, 11).Draw(b.t, "longshadow") == 0 {
		// a long shadow rewriting one register more often than the rename table
		// has slots
		r := b.dest("rd")
		for i := rapid.IntRange(11, 14).Draw(b.t, "longlen"); i > 0; i-- {
			b.emit(ref.Ins{Op: "li", Rd: r, Imm: int32(i)})
		}
		b.Meta["longshadow"]++
		k = 0
	}
	if known && taken && gadget != 0 {
		b.emit(ref.Ins{Op: "addi", Rd: gadget, Rs1: 0, Imm: gb})
		b.Meta["gadget"]++
		k = rapid.IntRange(0, 1).Draw(b.t, "gadgetextra")
	}
	if known && taken && b.P.Hostile && gadget == 0 && k > 0 && rapid.IntRange(0, 7).Draw(b.t, "innerflush") == 0 {
		// a younger wrong-path instruction that asks for a flush before the
		// branch resolves: a multi-cycle load (its result arrives late), then a
		// jump the branch target buffer has never seen, then more wrong path
		op := b.memOp(loadOps)
		b.emit(ref.Ins{Op: op, Rd: b.dest("rd"), Rs1: 0, Imm: b.addr(ref.AccessSize(op), "ea")})
		over := b.label()
		if rapid.Bool().Draw(b.t, "ifjal") {
			b.emit(ref.Ins{Op: "jal", Rd: rapid.SampledFrom([]int{0, 1}).Draw(b.t, "link"), Label: over})
		} else {
			b.emit(ref.Ins{Op: "j", Label: over})
		}
		b.emit(ref.Ins{Op: "li", Rd: b.dest("rd"), Imm: 4})
		b.place(over)
		b.Meta["innerflush"]++
		k = rapid.IntRange(0, 1).Draw(b.t, "ifextra")
	}
	for i := 0; i < k; i++ {
		if known && taken && b.P.Hostile {
			b.Hostile(l)
			b.Meta["hostile"]++
		} else if known && !taken {
			b.atom()
		} else {
			// outcome unknown (inside a loop) or benign shadow: register-only code
			b.Alu()
		}
	}
	b.place(l)
	if known && taken && gadget != 0 {
		if rapid.Bool().Draw(b.t, "gadgetload") {
			b.emit(ref.Ins{Op: "lw", Rd: b.dest("rd"), Rs1: gadget, Imm: gc})
		} else {
			b.emit(ref.Ins{Op: "add", Rd: b.dest("rd"), Rs1: gadget, Rs2: gadget})
		}
	}
}

// Jump emits j / jal / jalr forward over a shadow.
func (b *Builder) Jump() {
	st := b.State()
	known := st.Err == nil && b.depth == 0
	k := rapid.IntRange(1, 3).Draw(b.t, "shadowlen")
	l := b.label()
	kind := rapid.IntRange(0, 2).Draw(b.t, "jkind")
	link := rapid.SampledFrom([]int{0, 1, 5}).Draw(b.t, "link")
	if b.noDest[link] {
		link = 0
	}
	switch {
	case kind == 0:
		b.emit(ref.Ins{Op: "j", Label: l})
	case kind == 1 || !known:
		b.emit(ref.Ins{Op: "jal", Rd: link, Label: l})
	default:
		target := int32(4 * (len(b.Prog.Ins) + 1 + k))
		base := b.reg("jbase")
		b.emit(ref.Ins{Op: "jalr", Rd: link, Rs1: base, Imm: target - st.Reg[base]})
	}
	b.Meta["jump"]++
	for i := 0; i < k; i++ {
		if b.P.Hostile {
			b.Hostile(l)
			b.Meta["hostile"]++
		} else {
			b.Alu()
		}
	}
	b.place(l)
}

// Call emits a call/return pair: jal ra, F; j After; F: body; jalr zero, ra, 0; After:
func (b *Builder) Call() {
	if b.depth > 0 || b.noDest[1] {
		b.Alu()
		return
	}
	switch rapid.IntRange(0, 3).Draw(b.t, "callkind") {
	case 2:
		b.SharedCall()
		return
	case 3:
		b.EarlyRet()
		return
	}
	f, after := b.label(), b.label()
	b.emit(ref.Ins{Op: "jal", Rd: 1, Label: f})
	b.emit(ref.Ins{Op: "j", Label: after})
	b.place(f)
	b.noDest[1] = true
	b.depth++
	k := rapid.IntRange(1, 4).Draw(b.t, "fnlen")
	for i := 0; i < k; i++ {
		b.inLoopAtom()
	}
	b.depth--
	delete(b.noDest, 1)
	b.emit(ref.Ins{Op: "jalr", Rd: 0, Rs1: 1, Imm: 0})
	b.place(after)
	b.Meta["call"]++
}

// inLoopAtom emits an instruction that is valid whatever the state: ALU code
// or memory accesses through the zero register.
func (b *Builder) inLoopAtom() {
	w := b.P.W
	total := w.Alu + w.Load + w.Store
	x := 0
	if total > 0 {
		x = rapid.IntRange(0, total-1).Draw(b.t, "latom")
	}
	switch {
	case total == 0 || x < w.Alu:
		b.Alu()
	case x < w.Alu+w.Load:
		b.Load()
	default:
		if b.P.LoadsOnly {
			b.Load()
		} else {
			b.Store()
		}
	}
}

// Loop emits a counted loop with a dedicated counter register.
func (b *Builder) Loop() {
	cnt := RegCnt
	if b.depth > 0 {
		cnt = RegCnt2
	}
	if b.depth > 1 || b.noDest[cnt] {
		b.Alu()
		return
	}
	iters := rapid.Int32Range(1, 5).Draw(b.t, "iters")
	b.emit(ref.Ins{Op: "li", Rd: cnt, Imm: iters})
	l := b.label()
	b.place(l)
	b.noDest[cnt] = true
	b.depth++
	k := rapid.IntRange(1, 5).Draw(b.t, "bodylen")
	for i := 0; i < k; i++ {
		if b.depth == 1 && rapid.IntRange(0, 9).Draw(b.t, "nest") == 0 {
			b.Loop()
		} else if rapid.IntRange(0, 7).Draw(b.t, "lbr") == 0 {
			b.Branch()
		} else if b.P.W.Jump > 0 && rapid.IntRange(0, 9).Draw(b.t, "ljmp") == 0 {
			b.Jump() // executed on every iteration: the second time through the BTB
		} else {
			b.inLoopAtom()
		}
	}
	b.depth--
	delete(b.noDest, cnt)
	b.emit(ref.Ins{Op: "addi", Rd: cnt, Rs1: cnt, Imm: -1})
	switch rapid.IntRange(0, 4).Draw(b.t, "backedge") {
	case 0:
		b.emit(ref.Ins{Op: "bnez", Rs1: cnt, Label: l})
	case 1:
		b.emit(ref.Ins{Op: "bne", Rs1: cnt, Rs2: 0, Label: l})
	case 2:
		b.emit(ref.Ins{Op: "blt", Rs1: 0, Rs2: cnt, Label: l})
	default:
		// while-loop shape: a forward exit test that is not taken until the end
		// and a backward jump, which the branch target buffer knows from the
		// second iteration on — no flush between iterations, so that consecutive
		// iterations overlap in the pipeline
		out := b.label()
		if rapid.Bool().Draw(b.t, "exitop") {
			b.emit(ref.Ins{Op: "beqz", Rs1: cnt, Label: out})
		} else {
			b.emit(ref.Ins{Op: "ble", Rs1: cnt, Rs2: 0, Label: out})
		}
		b.emit(ref.Ins{Op: "j", Label: l})
		b.place(out)
		b.Meta["loop_jump_backedge"]++
	}
	b.Meta["loop"]++
}

var strides = []int32{1, 2, 4, 8, 60, 64, 68, 128, 256, 1024}

// Walk emits a strided loop over memory: loads folded into the checksum
// register, stores, or read-modify-write.
func (b *Builder) Walk() {
	if b.depth > 0 {
		b.inLoopAtom()
		return
	}
	memSize := int32(len(b.Init.Mem))
	kind := rapid.IntRange(0, 3).Draw(b.t, "walkkind")
	if b.P.LoadsOnly {
		kind = 0
	}
	ld, stOp := "lw", "sw"
	if !b.P.NoSubword {
		i := rapid.IntRange(0, 2).Draw(b.t, "walkwidth")
		ld, stOp = loadOps[i], storeOps[i]
	}
	size := ref.AccessSize(ld)
	stride := rapid.SampledFrom(strides).Draw(b.t, "stride")
	if stride%size != 0 {
		stride = size
	}
	start := rapid.Int32Range(0, min32(memSize/size-1, 63)).Draw(b.t, "start") * size
	maxIters := (memSize - size - start) / stride
	if maxIters < 1 {
		maxIters = 1
		start = 0
		stride = size
	}
	iters := rapid.Int32Range(1, min32(maxIters, 48)).Draw(b.t, "iters")
	data := b.dest("data")
	// a hot line: one word outside the walked range is stored to before the loop
	// and accessed in every iteration, so that its L1 line stays resident (and
	// Modified) while the walk pushes everything else — its L3 parent on MVP-8
	// included — out of the caches
	hot := int32(-1)
	hotStore := false
	if !b.P.LoadsOnly && rapid.IntRange(0, 2).Draw(b.t, "hotline") == 0 {
		lo, hi := start/64, (start+iters*stride+size-1)/64
		var cands []int32
		for ln := int32(0); ln < memSize/64; ln++ {
			if ln < lo || ln > hi {
				cands = append(cands, ln)
			}
		}
		if len(cands) > 0 {
			hot = cands[rapid.IntRange(0, len(cands)-1).Draw(b.t, "hotln")]*64 + 4*rapid.Int32Range(0, 15).Draw(b.t, "hotoff")
			hotStore = rapid.Bool().Draw(b.t, "hotstore")
			b.emit(ref.Ins{Op: "sw", Rs2: b.reg("hotsrc"), Rs1: 0, Imm: hot})
			b.Meta["walk_hotline"]++
		}
	}
	b.emit(ref.Ins{Op: "li", Rd: RegCnt, Imm: iters})
	b.emit(ref.Ins{Op: "li", Rd: RegPtr, Imm: start})
	l := b.label()
	b.place(l)
	if hot >= 0 {
		if hotStore {
			b.emit(ref.Ins{Op: "sw", Rs2: RegCnt, Rs1: 0, Imm: hot})
		} else {
			b.emit(ref.Ins{Op: "lw", Rd: RegPtr2, Rs1: 0, Imm: hot})
		}
	}
	switch kind {
	case 0:
		b.emit(ref.Ins{Op: ld, Rd: data, Rs1: RegPtr, Imm: 0})
		b.emit(ref.Ins{Op: "add", Rd: RegSum, Rs1: RegSum, Rs2: data})
	case 1:
		b.emit(ref.Ins{Op: stOp, Rs2: b.reg("src"), Rs1: RegPtr, Imm: 0})
	case 2:
		b.emit(ref.Ins{Op: ld, Rd: data, Rs1: RegPtr, Imm: 0})
		b.emit(ref.Ins{Op: "addi", Rd: data, Rs1: data, Imm: rapid.Int32Range(-3, 3).Draw(b.t, "inc")})
		b.emit(ref.Ins{Op: stOp, Rs2: data, Rs1: RegPtr, Imm: 0})
	default:
		b.emit(ref.Ins{Op: stOp, Rs2: RegCnt, Rs1: RegPtr, Imm: 0})
		b.emit(ref.Ins{Op: "xor", Rd: RegSum, Rs1: RegSum, Rs2: RegCnt})
	}
	b.emit(ref.Ins{Op: "addi", Rd: RegPtr, Rs1: RegPtr, Imm: stride})
	b.emit(ref.Ins{Op: "addi", Rd: RegCnt, Rs1: RegCnt, Imm: -1})
	b.emit(ref.Ins{Op: "bnez", Rs1: RegCnt, Label: l})
	b.Meta["walk"]++
}

func min32(a, b int32) int32 {
	if a < b {
		return a
	}
	return b
}

// Construct emits one top-level construct chosen by the profile weights.
func (b *Builder) Construct() {
	w := b.P.W
	total := w.Alu + w.Div + w.Load + w.Store + w.Branch + w.Jump + w.Call + w.Loop + w.Walk + w.EvictReread + w.Behind
	x := rapid.IntRange(0, total-1).Draw(b.t, "construct")
	if x >= total-w.Behind {
		b.Behind()
		return
	}
	total -= w.Behind
	if x >= total-w.EvictReread {
		b.EvictReread()
		return
	}
	switch {
	case x < w.Alu:
		b.Alu()
	case x < w.Alu+w.Div:
		b.Div()
	case x < w.Alu+w.Div+w.Load:
		b.Load()
	case x < w.Alu+w.Div+w.Load+w.Store:
		if b.P.LoadsOnly {
			b.Load()
		} else {
			b.Store()
		}
	case x < w.Alu+w.Div+w.Load+w.Store+w.Branch:
		b.Branch()
	case x < w.Alu+w.Div+w.Load+w.Store+w.Branch+w.Jump:
		b.Jump()
	case x < w.Alu+w.Div+w.Load+w.Store+w.Branch+w.Jump+w.Call:
		b.Call()
	case x < w.Alu+w.Div+w.Load+w.Store+w.Branch+w.Jump+w.Call+w.Loop:
		b.Loop()
	default:
		b.Walk()
	}
}

// Exit emits the exit point: ret, fall-through, or nothing behind a final
// label.
func (b *Builder) Exit() {
	switch rapid.IntRange(0, 2).Draw(b.t, "exit") {
	case 0:
		b.emit(ref.Ins{Op: "ret"})
		b.Meta["exit_ret"]++
	default:
		b.Meta["exit_fall"]++
	}
}

// Program draws a whole program of the profile.
func Program(t *rapid.T, p Profile) *Case {
	b, c := NewBuilder(t, p)
	target := rapid.IntRange(p.MinLen, p.MaxLen).Draw(t, "len")
	// function-first layout (one case in twelve of the profiles with calls): the
	// program starts with "j Main", a function and unreachable code behind its
	// return; Main calls it, and the last instruction of the program is a call,
	// so that the function's jalr — known to the branch target buffer from the
	// earlier calls — returns to the end of the program
	fn := ""
	if (p.W.Call > 0 || p.W.Jump > 0) && rapid.IntRange(0, 11).Draw(t, "fnfirst") == 0 {
		fn = b.fnFirst()
	}
	probeAt := -1
	if p.FaultProbe {
		c.Regs[RegProbe] = 1
		b.Init = c.Init()
		probeAt = rapid.IntRange(1, target).Draw(t, "probeat")
	}
	for b.Len() < target && b.Len() < 240 {
		b.Construct()
		if probeAt >= 0 && b.Len() >= probeAt && b.depth == 0 {
			// no architectural effect while s6 != 0
			b.emit(ref.Ins{Op: "div", Rd: 0, Rs1: 0, Rs2: RegProbe})
			b.Meta["faultprobe"]++
			probeAt = -1
		}
		if p.MaxDyn > 0 && b.State().Steps > p.MaxDyn {
			break
		}
		if fn != "" && b.depth == 0 && rapid.IntRange(0, 3).Draw(t, "fncall") == 0 {
			b.emit(ref.Ins{Op: "jal", Rd: 1, Label: fn})
		}
	}
	if fn != "" {
		b.emit(ref.Ins{Op: "jal", Rd: 1, Label: fn})
		b.Meta["exit_call"]++
	} else {
		b.Exit()
	}
	b.Finish(c)
	return c
}

// fnFirst emits "j Main; F: body; jalr zero, ra, 0; unreachable code; Main:",
// optionally a first call, reserves ra for the rest of the program and returns
// the function's label.
func (b *Builder) fnFirst() string {
	main, f := b.label(), b.label()
	b.emit(ref.Ins{Op: "j", Label: main})
	b.place(f)
	b.noDest[1] = true
	b.depth++
	for k := rapid.IntRange(1, 3).Draw(b.t, "fnlen"); k > 0; k-- {
		b.inLoopAtom()
	}
	b.emit(ref.Ins{Op: "jalr", Rd: 0, Rs1: 1, Imm: 0})
	for k := rapid.IntRange(1, 4).Draw(b.t, "fndead"); k > 0; k-- {
		if b.P.Hostile {
			b.Hostile(main)
			b.Meta["hostile"]++
		} else {
			b.inLoopAtom()
		}
	}
	b.depth--
	b.place(main)
	if rapid.IntRange(0, 4).Draw(b.t, "fncall0") != 0 {
		b.emit(ref.Ins{Op: "jal", Rd: 1, Label: f})
	}
	b.Meta["fnfirst"]++
	return f
}

// touchedLines returns the 64-byte lines the program built so far has accessed
// (from a traced reference run).
func (b *Builder) touchedLines() map[int32]bool {
	r := ref.Run(&b.Prog, b.Init, ref.Options{MaxSteps: 50000, Trace: true})
	m := map[int32]bool{}
	for _, s := range r.Trace {
		if s.Load || s.Store {
			m[s.Addr/64] = true
		}
	}
	return m
}

// addrIn picks an aligned address inside or outside the touched lines.
func (b *Builder) addrIn(size int32, touched map[int32]bool, fresh bool, label string) int32 {
	memSize := int32(len(b.Init.Mem))
	lines := (memSize + 63) / 64
	var cands []int32
	for l := int32(0); l < lines; l++ {
		if touched[l] != fresh {
			cands = append(cands, l)
		}
	}
	if len(cands) == 0 {
		return b.addr(size, label)
	}
	line := cands[rapid.IntRange(0, len(cands)-1).Draw(b.t, label+"line")]
	per := int32(64) / size
	if (line+1)*64 > memSize {
		per = (memSize - line*64) / size
	}
	if per < 1 {
		return b.addr(size, label)
	}
	return line*64 + rapid.Int32Range(0, per-1).Draw(b.t, label+"off")*size
}

// Tail emits 1..5 controlled last instructions before the exit point: loads
// that miss every cache or hit, stores to untouched or resident lines, stores
// back to back, a dependent chain, a producer with no later reader.
func (b *Builder) Tail() {
	n := rapid.IntRange(1, 5).Draw(b.t, "taillen")
	touched := b.touchedLines()
	for i := 0; i < n; i++ {
		k := rapid.IntRange(0, 7).Draw(b.t, "tailkind")
		b.Meta[fmt.Sprintf("tail%d", k)]++
		switch k {
		case 0: // load missing every cache
			op := b.memOp(loadOps)
			ea := b.addrIn(ref.AccessSize(op), touched, true, "ea")
			base, off := b.baseFor(ea)
			b.emit(ref.Ins{Op: op, Rd: b.dest("rd"), Rs1: base, Imm: off})
			touched[ea/64] = true
		case 1: // load hitting
			op := b.memOp(loadOps)
			ea := b.addrIn(ref.AccessSize(op), touched, false, "ea")
			base, off := b.baseFor(ea)
			b.emit(ref.Ins{Op: op, Rd: b.dest("rd"), Rs1: base, Imm: off})
			touched[ea/64] = true
		case 2: // store to a never-touched line
			op := b.memOp(storeOps)
			ea := b.addrIn(ref.AccessSize(op), touched, true, "ea")
			base, off := b.baseFor(ea)
			b.emit(ref.Ins{Op: op, Rs2: b.reg("src"), Rs1: base, Imm: off})
			touched[ea/64] = true
		case 3: // store to a resident line
			op := b.memOp(storeOps)
			ea := b.addrIn(ref.AccessSize(op), touched, false, "ea")
			base, off := b.baseFor(ea)
			b.emit(ref.Ins{Op: op, Rs2: b.reg("src"), Rs1: base, Imm: off})
			touched[ea/64] = true
		case 4: // two stores back to back
			for j := 0; j < 2; j++ {
				op := b.memOp(storeOps)
				ea := b.addrIn(ref.AccessSize(op), touched, j == 0, "ea")
				base, off := b.baseFor(ea)
				b.emit(ref.Ins{Op: op, Rs2: b.reg("src"), Rs1: base, Imm: off})
				touched[ea/64] = true
			}
		case 5: // dependent chain
			r := b.dest("chain")
			b.emit(ref.Ins{Op: "addi", Rd: r, Rs1: b.reg("rs1"), Imm: 1})
			b.emit(ref.Ins{Op: "add", Rd: r, Rs1: r, Rs2: r})
			b.emit(ref.Ins{Op: "xori", Rd: r, Rs1: r, Imm: 85})
		case 6: // a producer whose only consumer is the comparison at the end
			b.emit(ref.Ins{Op: "li", Rd: b.dest("rd"), Imm: Value().Draw(b.t, "imm")})
		default:
			b.Alu()
		}
	}
}

// TailProgram draws a body followed by a controlled tail and an exit.
func TailProgram(t *rapid.T, p Profile) *Case {
	b, c := NewBuilder(t, p)
	target := rapid.IntRange(p.MinLen, p.MaxLen).Draw(t, "len")
	for b.Len() < target {
		b.Construct()
	}
	b.Tail()
	switch rapid.IntRange(0, 4).Draw(t, "exit") {
	case 4:
		// an early ret on the fall-through path of a taken branch whose operand
		// is loaded right before it: the branch resolves long after the ret was
		// fetched; the run goes on at the target and ends there
		if !b.Valid() {
			b.emit(ref.Ins{Op: "ret"})
			break
		}
		rx := b.dest("erx")
		ea := b.addr(4, "erea")
		base, off := b.baseFor(ea)
		b.emit(ref.Ins{Op: "lw", Rd: rx, Rs1: base, Imm: off})
		st := b.State()
		in := ref.Ins{Op: rapid.SampledFrom(condOps).Draw(t, "ercond"), Rs1: rx, Rs2: b.reg("ery")}
		if ref.Shape(in.Op) == ref.ShapeBr1 {
			in.Rs2 = 0
		}
		if st.Err == nil && !ref.Cond(in.Op, st.Reg[in.Rs1], st.Reg[in.Rs2]) {
			in = negate(in)
		}
		l := b.label()
		in.Label = l
		b.emit(in)
		b.emit(ref.Ins{Op: "ret"})
		b.place(l)
		for k := rapid.IntRange(1, 2).Draw(t, "erafter"); k > 0; k-- {
			if rapid.Bool().Draw(t, "erstore") {
				b.Store()
			} else {
				b.Alu()
			}
		}
		if rapid.Bool().Draw(t, "erret") {
			b.emit(ref.Ins{Op: "ret"})
		}
		b.Meta["exit_early_ret_skipped"]++
	case 0, 1:
		b.emit(ref.Ins{Op: "ret"})
		b.Meta["exit_ret"]++
	case 2:
		// a forward branch to a final ret
		l := b.label()
		b.emit(ref.Ins{Op: "beq", Rs1: 0, Rs2: 0, Label: l})
		b.emit(ref.Ins{Op: "li", Rd: b.dest("rd"), Imm: 99})
		b.place(l)
		b.emit(ref.Ins{Op: "ret"})
		b.Meta["exit_branch_ret"]++
	default:
		b.Meta["exit_fall"]++
	}
	b.Finish(c)
	return c
}

// Pair emits a conflicting pair of memory accesses (store->load, load->store,
// store->store) to the same byte/half/word or to different bytes of one word
// or line, at a drawn distance, through independent address registers, each
// access made a hit or a miss by earlier touches, optionally separated by a
// taken branch.
func (b *Builder) Pair() {
	if b.depth > 0 {
		b.inLoopAtom()
		return
	}
	memSize := int32(len(b.Init.Mem))
	kind := rapid.IntRange(0, 2).Draw(b.t, "pairkind") // 0 store->load, 1 load->store, 2 store->store
	word := rapid.Int32Range(0, memSize/4-1).Draw(b.t, "pairword") * 4
	// overlap class: same bytes, same word different bytes, same line other word
	ov := rapid.IntRange(0, 3).Draw(b.t, "pairoverlap")
	w1 := rapid.IntRange(0, 2).Draw(b.t, "w1")
	w2 := rapid.IntRange(0, 2).Draw(b.t, "w2")
	sz1, sz2 := int32(1)<<w1, int32(1)<<w2
	a1 := word + rapid.Int32Range(0, 4/sz1-1).Draw(b.t, "o1")*sz1
	a2 := word + rapid.Int32Range(0, 4/sz2-1).Draw(b.t, "o2")*sz2
	switch ov {
	case 0: // identical access
		sz2, a2 = sz1, a1
	case 3: // another word of the same line
		lineBase := word &^ 63
		a2 = lineBase + rapid.Int32Range(0, min32(15, (memSize-lineBase)/4-1)).Draw(b.t, "lineword")*4
		sz2 = 4
	}
	hit1 := rapid.Bool().Draw(b.t, "prewarm")
	if hit1 {
		// touch the line first so that the first access hits
		b.emit(ref.Ins{Op: "lb", Rd: 0, Rs1: 0, Imm: word &^ 63})
		if rapid.Bool().Draw(b.t, "warmdrain") {
			// ... and let the pipeline drain (a taken branch) so that the pair
			// meets a quiet machine and a resident line
			// (a jump met for the first time flushes like a mispredicted branch but,
			// decode being stalled behind it, has no wrong path)
			l := b.label()
			b.emit(ref.Ins{Op: "j", Label: l})
			b.place(l)
			b.Meta["pair_warm_drained"]++
		}
	}
	// independent address registers holding the two addresses
	st := b.State()
	if st.Err != nil {
		return
	}
	r1, r2 := RegPtr, RegPtr2
	b.emit(ref.Ins{Op: "li", Rd: r1, Imm: a1 - 8})
	b.emit(ref.Ins{Op: "li", Rd: r2, Imm: a2 + 12})
	ld := func(sz int32) string { return map[int32]string{1: "lb", 2: "lh", 4: "lw"}[sz] }
	sto := func(sz int32) string { return map[int32]string{1: "sb", 2: "sh", 4: "sw"}[sz] }
	first, second := ref.Ins{}, ref.Ins{}
	d1, d2 := b.reg("d1"), b.reg("d2")
	switch kind {
	case 0:
		first = ref.Ins{Op: sto(sz1), Rs2: d1, Rs1: r1, Imm: 8}
		second = ref.Ins{Op: ld(sz2), Rd: b.dest("rd"), Rs1: r2, Imm: -12}
	case 1:
		first = ref.Ins{Op: ld(sz1), Rd: b.dest("rd"), Rs1: r1, Imm: 8}
		second = ref.Ins{Op: sto(sz2), Rs2: d2, Rs1: r2, Imm: -12}
	default:
		first = ref.Ins{Op: sto(sz1), Rs2: d1, Rs1: r1, Imm: 8}
		second = ref.Ins{Op: sto(sz2), Rs2: d2, Rs1: r2, Imm: -12}
	}
	b.emit(first)
	dist := rapid.IntRange(1, 12).Draw(b.t, "pairdist")
	sep := rapid.IntRange(0, 3).Draw(b.t, "pairsep") == 0
	save := b.noDest
	b.noDest = map[int]bool{r1: true, r2: true}
	for k, v := range save {
		b.noDest[k] = v
	}
	if sep {
		l := b.label()
		b.emit(ref.Ins{Op: "beq", Rs1: 0, Rs2: 0, Label: l})
		b.emit(ref.Ins{Op: "addi", Rd: b.dest("rd"), Rs1: 0, Imm: 7})
		b.place(l)
		b.Meta["pair_separated"]++
	}
	for i := 1; i < dist; i++ {
		b.Alu()
	}
	b.noDest = save
	b.emit(second)
	b.Meta[fmt.Sprintf("pair_kind%d", kind)]++
}

// PairProgram draws a program made of conflicting pairs and filler.
func PairProgram(t *rapid.T, p Profile) *Case {
	b, c := NewBuilder(t, p)
	n := rapid.IntRange(1, 4).Draw(t, "npairs")
	for i := 0; i < n && b.Len() < 200; i++ {
		for j := rapid.IntRange(0, 3).Draw(t, "filler"); j > 0; j-- {
			b.Construct()
		}
		b.Pair()
	}
	// consume: fold a few loads of the words back into registers
	b.Exit()
	b.Finish(c)
	return c
}

// FaultProgram draws a program that reaches a defined error (division by a
// zero register, or a taken transfer to an undefined label) after a prefix.
func FaultProgram(t *rapid.T, p Profile) *Case {
	b, c := NewBuilder(t, p)
	target := rapid.IntRange(0, p.MaxLen).Draw(t, "len")
	for b.Len() < target {
		b.Construct()
	}
	if rapid.IntRange(0, 2).Draw(t, "afterload") == 0 {
		// right after a long-latency load
		b.Load()
	}
	inLoop := rapid.IntRange(0, 3).Draw(t, "inloop") == 0
	var l string
	if inLoop {
		b.emit(ref.Ins{Op: "li", Rd: RegCnt, Imm: rapid.Int32Range(1, 3).Draw(t, "iters")})
		l = b.label()
		b.place(l)
		b.Alu()
	}
	fk := rapid.IntRange(0, 5).Draw(t, "fault")
	if !b.Valid() && fk == 5 {
		fk = 0
	}
	switch fk {
	case 5:
		// a slow fault: the dividend is loaded right before, so the division waits
		// in its unit for the load while younger instructions — the ret, the
		// branch or the jump emitted below — go ahead; the error is then raised
		// inside one of the drain loops
		op := b.memOp(loadOps)
		x := b.dest("fx")
		base, off := b.baseFor(b.addr(ref.AccessSize(op), "fea"))
		b.emit(ref.Ins{Op: op, Rd: x, Rs1: base, Imm: off})
		b.emit(ref.Ins{Op: rapid.SampledFrom([]string{"div", "rem"}).Draw(t, "op"), Rd: b.dest("rd"), Rs1: x, Rs2: 0})
		b.Meta["fault_slow"]++
	case 0:
		b.emit(ref.Ins{Op: "div", Rd: b.dest("rd"), Rs1: b.reg("rs1"), Rs2: 0})
		b.Meta["fault_div"]++
	case 1:
		b.emit(ref.Ins{Op: "rem", Rd: b.dest("rd"), Rs1: b.reg("rs1"), Rs2: 0})
		b.Meta["fault_rem"]++
	case 2:
		// a register that holds zero
		z := b.dest("zreg")
		b.emit(ref.Ins{Op: "sub", Rd: z, Rs1: z, Rs2: z})
		b.emit(ref.Ins{Op: rapid.SampledFrom([]string{"div", "rem"}).Draw(t, "op"), Rd: b.dest("rd"), Rs1: b.reg("rs1"), Rs2: z})
		b.Meta["fault_divreg"]++
	case 3:
		b.emit(ref.Ins{Op: "beq", Rs1: 0, Rs2: 0, Label: "nowhere"})
		b.Meta["fault_branch_label"]++
	default:
		b.emit(ref.Ins{Op: rapid.SampledFrom([]string{"j", "jal"}).Draw(t, "op"), Rd: 0, Label: "nowhere"})
		b.Meta["fault_jump_label"]++
	}
	if inLoop {
		b.emit(ref.Ins{Op: "addi", Rd: RegCnt, Rs1: RegCnt, Imm: -1})
		b.emit(ref.Ins{Op: "bnez", Rs1: RegCnt, Label: l})
	}
	// what follows the fault is never executed architecturally, but the pipeline
	// runs ahead into it
	switch rapid.IntRange(0, 4).Draw(t, "behindfault") {
	case 0:
		b.emit(ref.Ins{Op: "ret"})
	case 1:
		l2 := b.label()
		b.emit(ref.Ins{Op: "beq", Rs1: 0, Rs2: 0, Label: l2})
		b.emit(ref.Ins{Op: "nop"})
		b.place(l2)
	case 2:
		l2 := b.label()
		b.emit(ref.Ins{Op: "j", Label: l2})
		b.place(l2)
	}
	for j := rapid.IntRange(0, 4).Draw(t, "after"); j > 0; j-- {
		b.Alu()
	}
	b.Exit()
	b.Finish(c)
	return c
}

// VIProgram draws a program for the value-independence relation of C12: the
// registers are partitioned into control/address registers and data registers.
// Data registers never feed a branch, an address or a divisor; loads only write
// data registers; control registers are computed from control registers only.
// It returns the case and the list of data registers, whose initial values may
// be changed without changing the executed path or the accessed addresses.
func VIProgram(t *rapid.T, p Profile) (*Case, []int) {
	b, c := NewBuilder(t, p)
	if len(b.pool) < 3 {
		b.pool = append(b.pool, 13, 14, 15)
	}
	ctl := b.pool[:2]
	data := b.pool[2:]
	pick := func(rs []int, label string) int { return rs[rapid.IntRange(0, len(rs)-1).Draw(t, label)] }
	anyReg := func(label string) int {
		if rapid.Bool().Draw(t, label+"c") {
			return pick(ctl, label)
		}
		return pick(data, label)
	}
	dataAlu := func() {
		switch rapid.IntRange(0, 2).Draw(t, "dk") {
		case 0:
			b.emit(ref.Ins{Op: rapid.SampledFrom(aluR).Draw(t, "op"), Rd: pick(data, "rd"), Rs1: anyReg("rs1"), Rs2: anyReg("rs2")})
		case 1:
			b.emit(ref.Ins{Op: rapid.SampledFrom(aluI).Draw(t, "op"), Rd: pick(data, "rd"), Rs1: anyReg("rs1"), Imm: Value().Draw(t, "imm")})
		default:
			b.emit(ref.Ins{Op: "mv", Rd: pick(data, "rd"), Rs1: anyReg("rs1")})
		}
	}
	ctlAlu := func() {
		switch rapid.IntRange(0, 2).Draw(t, "ck") {
		case 0:
			b.emit(ref.Ins{Op: rapid.SampledFrom([]string{"add", "sub", "xor", "and", "or"}).Draw(t, "op"), Rd: pick(ctl, "rd"), Rs1: pick(ctl, "rs1"), Rs2: pick(ctl, "rs2")})
		case 1:
			b.emit(ref.Ins{Op: "addi", Rd: pick(ctl, "rd"), Rs1: pick(ctl, "rs1"), Imm: rapid.Int32Range(-64, 64).Draw(t, "imm")})
		default:
			b.emit(ref.Ins{Op: "li", Rd: pick(ctl, "rd"), Imm: Value().Draw(t, "imm")})
		}
	}
	mem := func(load bool) {
		st := b.State()
		if st.Err != nil {
			return
		}
		var op string
		if load {
			op = b.memOp(loadOps)
		} else {
			op = b.memOp(storeOps)
		}
		ea := b.addr(ref.AccessSize(op), "ea")
		base := pick(ctl, "base")
		if rapid.IntRange(0, 2).Draw(t, "zb") == 0 {
			base = 0
		}
		off := ea - st.Reg[base]
		if load {
			b.emit(ref.Ins{Op: op, Rd: pick(data, "rd"), Rs1: base, Imm: off})
		} else {
			b.emit(ref.Ins{Op: op, Rs2: anyReg("src"), Rs1: base, Imm: off})
		}
	}
	target := rapid.IntRange(p.MinLen, p.MaxLen).Draw(t, "len")
	for b.Len() < target {
		switch rapid.IntRange(0, 10).Draw(t, "vi") {
		case 10:
			// a conditional branch on data registers whose target is the next
			// instruction: taken or not, the executed path is the same
			in := ref.Ins{Op: rapid.SampledFrom(condOps).Draw(t, "dcond"), Rs1: anyReg("drs1"), Rs2: anyReg("drs2")}
			if ref.Shape(in.Op) == ref.ShapeBr1 {
				in.Rs2 = 0
			}
			l := b.label()
			in.Label = l
			b.emit(in)
			b.place(l)
		case 0, 1, 2:
			dataAlu()
		case 3:
			ctlAlu()
		case 4, 5:
			mem(true)
		case 6:
			mem(false)
		case 7:
			// forward branch on control registers over data code
			st := b.State()
			if st.Err != nil {
				continue
			}
			in := ref.Ins{Op: rapid.SampledFrom(condOps).Draw(t, "cond"), Rs1: pick(ctl, "rs1"), Rs2: pick(ctl, "rs2")}
			if ref.Shape(in.Op) == ref.ShapeBr1 {
				in.Rs2 = 0
			}
			l := b.label()
			in.Label = l
			b.emit(in)
			for k := rapid.IntRange(1, 3).Draw(t, "sh"); k > 0; k-- {
				dataAlu()
			}
			b.place(l)
		case 8:
			// counted loop of data code and zero-based accesses
			iters := rapid.Int32Range(1, 4).Draw(t, "iters")
			b.emit(ref.Ins{Op: "li", Rd: RegCnt, Imm: iters})
			l := b.label()
			b.place(l)
			for k := rapid.IntRange(1, 4).Draw(t, "body"); k > 0; k-- {
				if rapid.IntRange(0, 2).Draw(t, "lm") == 0 {
					op := b.memOp(loadOps)
					b.emit(ref.Ins{Op: op, Rd: pick(data, "rd"), Rs1: 0, Imm: b.addr(ref.AccessSize(op), "ea")})
				} else {
					dataAlu()
				}
			}
			b.emit(ref.Ins{Op: "addi", Rd: RegCnt, Rs1: RegCnt, Imm: -1})
			b.emit(ref.Ins{Op: "bnez", Rs1: RegCnt, Label: l})
		default:
			b.emit(ref.Ins{Op: "nop"})
		}
	}
	b.Exit()
	b.Finish(c)
	return c, data
}

// EvictReread emits a write pass over more lines than the smallest cache
// holds, optionally an evicting pass over other lines, and a read-back pass that
// folds what was written into the checksum register: lines are written,
// evicted and read again.
func (b *Builder) EvictReread() {
	if b.depth > 0 {
		b.inLoopAtom()
		return
	}
	memSize := int32(len(b.Init.Mem))
	lines := memSize / 64
	if lines < 20 {
		b.Walk()
		return
	}
	n := rapid.Int32Range(17, min32(lines, 40)).Draw(b.t, "erlines")
	off := rapid.Int32Range(0, 15).Draw(b.t, "eroff") * 4
	start := rapid.Int32Range(0, lines-n).Draw(b.t, "erstart") * 64
	w := rapid.IntRange(0, 2).Draw(b.t, "erwidth")
	if b.P.NoSubword {
		w = 0
	}
	ld, st := loadOps[w], storeOps[w]
	src := b.reg("src")
	loop := func(body func()) {
		b.emit(ref.Ins{Op: "li", Rd: RegCnt, Imm: n})
		b.emit(ref.Ins{Op: "li", Rd: RegPtr, Imm: start + off})
		l := b.label()
		b.place(l)
		body()
		b.emit(ref.Ins{Op: "addi", Rd: RegPtr, Rs1: RegPtr, Imm: 64})
		b.emit(ref.Ins{Op: "addi", Rd: RegCnt, Rs1: RegCnt, Imm: -1})
		b.emit(ref.Ins{Op: "bnez", Rs1: RegCnt, Label: l})
	}
	loop(func() {
		b.emit(ref.Ins{Op: st, Rs2: src, Rs1: RegPtr, Imm: 0})
		b.emit(ref.Ins{Op: "add", Rd: RegSum, Rs1: RegSum, Rs2: RegCnt})
	})
	for k := rapid.IntRange(0, 2).Draw(b.t, "erfill"); k > 0; k-- {
		b.Alu()
	}
	data := b.dest("data")
	loop(func() {
		b.emit(ref.Ins{Op: ld, Rd: data, Rs1: RegPtr, Imm: 0})
		b.emit(ref.Ins{Op: "add", Rd: RegSum, Rs1: RegSum, Rs2: data})
	})
	b.Meta["evictreread"]++
}

// SharedCall emits one function called from two sites, so that its returning
// jalr has a different target each time (a stale branch-target-buffer entry
// must be corrected): jal ra,F; atoms; jal ra,F; j After; F: body; jalr
// zero,ra,0; After:
func (b *Builder) SharedCall() {
	if b.depth > 0 || b.noDest[1] {
		b.Alu()
		return
	}
	f, after := b.label(), b.label()
	b.noDest[1] = true
	b.emit(ref.Ins{Op: "jal", Rd: 1, Label: f})
	b.depth++
	for k := rapid.IntRange(0, 2).Draw(b.t, "between"); k > 0; k-- {
		b.inLoopAtom()
	}
	b.emit(ref.Ins{Op: "jal", Rd: 1, Label: f})
	b.emit(ref.Ins{Op: "j", Label: after})
	b.place(f)
	for k := rapid.IntRange(1, 3).Draw(b.t, "fnlen"); k > 0; k-- {
		b.inLoopAtom()
	}
	b.depth--
	delete(b.noDest, 1)
	b.emit(ref.Ins{Op: "jalr", Rd: 0, Rs1: 1, Imm: 0})
	b.place(after)
	b.Meta["sharedcall"]++
}

// EarlyRet emits a conditional branch around a ret: when the branch is taken
// the ret sits on the wrong path; when it is not, the program ends there.
func (b *Builder) EarlyRet() {
	st := b.State()
	if st.Err != nil || b.depth > 0 {
		b.Alu()
		return
	}
	in := ref.Ins{Op: rapid.SampledFrom(condOps).Draw(b.t, "cond"), Rs1: b.reg("rs1"), Rs2: b.reg("rs2")}
	if ref.Shape(in.Op) == ref.ShapeBr1 {
		in.Rs2 = 0
	}
	// mostly skip the ret; sometimes end the program early
	wantTaken := rapid.IntRange(0, 9).Draw(b.t, "skipret") != 0
	if ref.Cond(in.Op, st.Reg[in.Rs1], st.Reg[in.Rs2]) != wantTaken {
		in = negate(in)
	}
	l := b.label()
	in.Label = l
	b.emit(in)
	b.emit(ref.Ins{Op: "ret"})
	b.place(l)
	b.Meta["earlyret"]++
}

// Behind emits older memory work that has to wait while a younger control
// transfer redirects the pipeline: one or two stores make a line A "owned"
// (Modified in one core on the coherent variants), optionally a line B is read
// by several loads and then written (an upgrade that invalidates the other
// sharers), then — behind first-time jumps, which drain the pipeline, so that
// no conflicting pair is in flight together — a load from a line touched by
// nothing before (it misses every cache and keeps its unit or core busy for
// the memory latency), one or two accesses to line A through independent base
// registers (on MVP-7.1/8 they are routed to the core holding A, which may be
// the busy one), and a taken branch over a short harmless shadow, a first-time
// jump, or nothing.
func (b *Builder) Behind() {
	if b.depth > 0 {
		b.inLoopAtom()
		return
	}
	memSize := int32(len(b.Init.Mem))
	if memSize < 4*64 || !b.Valid() {
		b.Store()
		return
	}
	lines := memSize / 64
	touched := b.touchedLines()
	word := func(line int32, label string) int32 {
		return line*64 + rapid.Int32Range(0, 15).Draw(b.t, label)*4
	}
	drain := func() {
		if rapid.IntRange(0, 9).Draw(b.t, "bdrain") < 8 {
			l := b.label()
			b.emit(ref.Ins{Op: "j", Label: l})
			b.place(l)
		}
	}
	access := func(ea int32, store bool, width int) {
		var op string
		if store {
			op = storeOps[width]
		} else {
			op = loadOps[width]
		}
		base, off := b.baseFor(ea)
		if store {
			b.emit(ref.Ins{Op: op, Rs2: b.reg("src"), Rs1: base, Imm: off})
		} else {
			b.emit(ref.Ins{Op: op, Rd: b.dest("rd"), Rs1: base, Imm: off})
		}
	}
	width := func() int {
		if b.P.NoSubword {
			return 0
		}
		return rapid.IntRange(0, 2).Draw(b.t, "bwidth")
	}
	lineA := rapid.Int32Range(0, lines-1).Draw(b.t, "blineA")
	lineB := (lineA + 1 + rapid.Int32Range(0, lines-2).Draw(b.t, "blineB")) % lines
	for k := rapid.IntRange(1, 2).Draw(b.t, "bown"); k > 0; k-- {
		access(word(lineA, "boff"), true, width())
	}
	touched[lineA] = true
	if rapid.Bool().Draw(b.t, "bshare") {
		for k := rapid.IntRange(1, 3).Draw(b.t, "breaders"); k > 0; k-- {
			access(word(lineB, "boff"), false, 0)
		}
		drain()
		access(word(lineB, "boff"), true, width())
		touched[lineB] = true
	}
	drain()
	// the miss
	var fresh []int32
	for l := int32(0); l < lines; l++ {
		if !touched[l] {
			fresh = append(fresh, l)
		}
	}
	if len(fresh) > 0 {
		lineC := fresh[rapid.IntRange(0, len(fresh)-1).Draw(b.t, "blineC")]
		access(word(lineC, "boff"), false, 0)
	}
	for k := rapid.IntRange(1, 2).Draw(b.t, "bwait"); k > 0; k-- {
		access(word(lineA, "boff"), rapid.IntRange(0, 9).Draw(b.t, "bkind") < 7, width())
	}
	switch x := rapid.IntRange(0, 9).Draw(b.t, "bxfer"); {
	case x < 6:
		r := b.reg("bcmp")
		l := b.label()
		b.emit(ref.Ins{Op: rapid.SampledFrom([]string{"beq", "bge", "bgeu"}).Draw(b.t, "bop"), Rs1: r, Rs2: r, Label: l})
		shadowLine := int32(-1)
		for k := rapid.IntRange(1, 2).Draw(b.t, "bshadow"); k > 0; k-- {
			switch rapid.IntRange(0, 3).Draw(b.t, "bshk") {
			case 0:
				b.emit(ref.Ins{Op: "nop"})
			case 1:
				b.Alu()
			case 2:
				// a wrong-path load from the owned line
				shadowLine = lineA
				b.emit(ref.Ins{Op: "lw", Rd: b.dest("rd"), Rs1: 0, Imm: word(lineA, "boff")})
			default:
				// a wrong-path load from a line nothing has touched (it misses every
				// cache and is squashed while it waits)
				shadowLine = (lineB + 1 + rapid.Int32Range(0, lines-2).Draw(b.t, "blineD")) % lines
				b.emit(ref.Ins{Op: "lw", Rd: b.dest("rd"), Rs1: 0, Imm: word(shadowLine, "boff")})
			}
		}
		b.place(l)
		if shadowLine >= 0 && rapid.Bool().Draw(b.t, "breload") {
			// the right path then loads from the line the squashed load was fetching
			access(word(shadowLine, "boff"), false, 0)
		}
	case x < 9:
		l := b.label()
		b.emit(ref.Ins{Op: "j", Label: l})
		b.place(l)
	}
	b.Meta["behind"]++
}

// JumpChainProgram draws a program of small blocks (0..2 ALU instructions and
// a jump) laid out in one order, separated by never-executed padding, and
// visited in another order: instruction fetch keeps leaving whatever window or
// line an instruction cache holds, forwards and backwards.
func JumpChainProgram(t *rapid.T, p Profile) *Case {
	b, c := NewBuilder(t, p)
	n := rapid.IntRange(3, 14).Draw(t, "blocks")
	bodyMax := rapid.IntRange(0, 2).Draw(t, "bodymax")
	padMax := rapid.SampledFrom([]int{0, 3, 18, 30}).Draw(t, "padmax")
	// visit order: a permutation drawn by repeated selection
	layout := make([]int, n) // position in the text -> block number in visit order
	left := make([]int, n)
	for i := range left {
		left[i] = i
	}
	for i := 0; i < n; i++ {
		k := rapid.IntRange(0, len(left)-1).Draw(t, "perm")
		layout[i] = left[k]
		left = append(left[:k], left[k+1:]...)
	}
	labels := make([]string, n+1)
	for i := range labels {
		labels[i] = b.label()
	}
	// the entry: jump to the first block visited unless it is laid out first
	if layout[0] != 0 {
		b.emit(ref.Ins{Op: "j", Label: labels[0]})
	}
	b.depth++ // blocks are not laid out in execution order: state-agnostic code only
	for pos := 0; pos < n; pos++ {
		blk := layout[pos]
		for k := rapid.IntRange(0, padMax).Draw(t, "pad"); k > 0 && pos > 0; k-- {
			b.emit(ref.Ins{Op: "nop"})
		}
		b.place(labels[blk])
		for k := rapid.IntRange(0, bodyMax).Draw(t, "body"); k > 0; k-- {
			b.Alu()
		}
		if blk == n-1 {
			b.emit(ref.Ins{Op: "ret"})
		} else {
			b.emit(ref.Ins{Op: "j", Label: labels[blk+1]})
		}
	}
	b.depth--
	b.Meta["jumpchain"]++
	b.Finish(c)
	return c
}
