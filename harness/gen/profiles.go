package gen

var smallMem = []int{64, 128, 256, 512}
var midMem = []int{256, 1024, 2048, 4096}
var bigMem = []int{2048, 4096, 8192, 16384}

// Profiles bias the structure of generated programs (DESIGN.md 2.3).
var (
	// REG: register-only programs — ALU, branches, loops, jal/jalr, calls.
	REG = Profile{Name: "REG", MinLen: 3, MaxLen: 40, PoolMin: 2, PoolMax: 6, MemSizes: smallMem,
		W: Weights{Alu: 10, Div: 1, Branch: 3, Jump: 2, Call: 1, Loop: 1, Nop: 1}, TakenPct: 50, ZeroRaPct: 10, MaxDyn: 2000}
	// MEM: loads and stores mixed with ALU code and control flow.
	MEM = Profile{Name: "MEM", MinLen: 3, MaxLen: 40, PoolMin: 2, PoolMax: 6, MemSizes: midMem,
		W: Weights{Alu: 6, Div: 1, Load: 4, Store: 4, Branch: 2, Jump: 1, Call: 1, Loop: 1, Nop: 1}, TakenPct: 50, ZeroRaPct: 10, MaxDyn: 2000, WidePoolPct: 35, SlowBranchPct: 20}
	// SHADOW: taken branches and jumps over hostile shadows.
	SHADOW = Profile{Name: "SHADOW", MinLen: 4, MaxLen: 40, PoolMin: 2, PoolMax: 5, MemSizes: midMem,
		W: Weights{Alu: 6, Load: 2, Store: 1, Branch: 5, Jump: 3, Loop: 1}, TakenPct: 70, Hostile: true, OOBShadow: true, ErrShadow: true, ZeroRaPct: 8, MaxDyn: 2000, WidePoolPct: 35}
	// WALK: strided loops over memories larger than the caches.
	WALK = Profile{Name: "WALK", MinLen: 6, MaxLen: 40, PoolMin: 2, PoolMax: 4, MemSizes: bigMem,
		W: Weights{Alu: 3, Load: 2, Store: 2, Branch: 1, Walk: 4}, TakenPct: 50, ZeroRaPct: 5, MaxDyn: 2500, WidePoolPct: 35}
	// PRESSURE: two to three registers, dense dependences.
	PRESSURE = Profile{Name: "PRESSURE", MinLen: 3, MaxLen: 24, PoolMin: 2, PoolMax: 3, MemSizes: smallMem,
		W: Weights{Alu: 12, Div: 1, Branch: 2, Jump: 1, Loop: 1}, TakenPct: 40, ZeroRaPct: 5, MaxDyn: 1000}
)

var (
	// SHADOWSLOW: SHADOW with branch operands produced by loads right before the
	// branch, so that the branch resolves 1 to ~300 cycles after its shadow was
	// dispatched.
	SHADOWSLOW = Profile{Name: "SHADOWSLOW", MinLen: 4, MaxLen: 36, PoolMin: 2, PoolMax: 5, MemSizes: midMem,
		W: Weights{Alu: 6, Load: 2, Store: 1, Branch: 6, Jump: 2, Loop: 1}, TakenPct: 70, Hostile: true, OOBShadow: true, ErrShadow: true,
		ZeroRaPct: 8, MaxDyn: 2000, SlowBranchPct: 60, WidePoolPct: 35}
	// PRESSURELOAD: PRESSURE with load producers (loads only, so that no memory
	// conflict arises): mixed-latency producers are what exercises the
	// interlocks, forwarding and renaming.
	PRESSURELOAD = Profile{Name: "PRESSURELOAD", MinLen: 3, MaxLen: 24, PoolMin: 2, PoolMax: 4, MemSizes: midMem,
		W: Weights{Alu: 10, Div: 1, Load: 4, Branch: 2, Jump: 1, Loop: 1}, TakenPct: 40, ZeroRaPct: 5, MaxDyn: 1000, LoadsOnly: true, SlowBranchPct: 30}
	// CACHE: loads and stores over memories larger than every cache, spread over
	// all lines.
	CACHE = Profile{Name: "CACHE", MinLen: 8, MaxLen: 60, PoolMin: 2, PoolMax: 5, MemSizes: bigMem,
		W: Weights{Alu: 3, Load: 5, Store: 5, Branch: 1, Loop: 1, Walk: 3, EvictReread: 1}, TakenPct: 50, ZeroRaPct: 5, MaxDyn: 3000, LineSpread: true, WidePoolPct: 35, SlowBranchPct: 10}
	// TAIL body.
	TAIL = Profile{Name: "TAIL", MinLen: 0, MaxLen: 16, PoolMin: 2, PoolMax: 5, MemSizes: midMem,
		W: Weights{Alu: 6, Load: 3, Store: 3, Branch: 1, Loop: 1}, TakenPct: 50, ZeroRaPct: 5, MaxDyn: 1500, LineSpread: true, WidePoolPct: 35, SlowBranchPct: 25}
	// PAIR filler.
	PAIR = Profile{Name: "PAIR", MinLen: 0, MaxLen: 30, PoolMin: 3, PoolMax: 5, MemSizes: []int{256, 1024, 4096},
		W: Weights{Alu: 8, Load: 1, Branch: 1}, TakenPct: 50, ZeroRaPct: 5, MaxDyn: 1500, WidePoolPct: 35}
	// ERR prefix.
	ERR = Profile{Name: "ERR", MinLen: 0, MaxLen: 16, PoolMin: 2, PoolMax: 5, MemSizes: midMem,
		W: Weights{Alu: 8, Load: 2, Store: 1, Branch: 2, Jump: 1, Loop: 1}, TakenPct: 50, ZeroRaPct: 5, MaxDyn: 1500}
	// MEMSAFE: loads and stores on disjoint line sets (loads from the lower half
	// of memory, stores to the upper half), so that no memory conflict and no
	// store-miss-then-fill arises: the profile that keeps memory programs
	// judged at parallelism >= 2.
	MEMSAFE = Profile{Name: "MEMSAFE", MinLen: 4, MaxLen: 40, PoolMin: 3, PoolMax: 6, MemSizes: midMem,
		W: Weights{Alu: 8, Load: 4, Store: 3, Branch: 2, Jump: 1, Loop: 1}, TakenPct: 50, ZeroRaPct: 5, MaxDyn: 2000, LineSpread: true, SplitHalves: true, WidePoolPct: 35}
)

// OWNER: ownership and contention — lines owned by one core, shared lines
// upgraded, and memory work that waits behind a miss while a younger control
// transfer redirects the pipeline (Builder.Behind), mixed with ordinary code.
var OWNER = Profile{Name: "OWNER", MinLen: 6, MaxLen: 40, PoolMin: 3, PoolMax: 6, MemSizes: []int{512, 1024, 4096},
	W: Weights{Alu: 6, Load: 2, Store: 2, Branch: 1, Jump: 1, Behind: 4}, TakenPct: 50, ZeroRaPct: 5, MaxDyn: 2000, NoSubword: false, WidePoolPct: 35, SlowBranchPct: 15}

// PRESSUREMEM: PRESSURELOAD plus stores to the other half of memory (no memory
// conflict arises): a store that misses keeps a write unit busy for the memory
// latency, so register results queue up behind it while their consumers issue.
var PRESSUREMEM = Profile{Name: "PRESSUREMEM", MinLen: 3, MaxLen: 24, PoolMin: 2, PoolMax: 4, MemSizes: midMem,
	W: Weights{Alu: 10, Div: 1, Load: 3, Store: 3, Branch: 2, Jump: 1, Loop: 1}, TakenPct: 40, ZeroRaPct: 5, MaxDyn: 1000, SplitHalves: true, SlowBranchPct: 20}

// AllProfiles lists the profiles by name.
var AllProfiles = []Profile{REG, MEM, SHADOW, WALK, PRESSURE, SHADOWSLOW, PRESSURELOAD, CACHE, TAIL, PAIR, ERR, MEMSAFE, OWNER, PRESSUREMEM}
