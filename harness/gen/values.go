// Package gen holds the rapid generators: values, registers, and the concolic
// program builders used by the processor-level checks.
package gen

import (
	"math"

	"pgregory.net/rapid"
)

// Lattice is the boundary lattice of 32-bit operand values.
var Lattice = []int32{
	0, 1, -1, 2, -2, 3, 4, -4, 8, 31, 32, 33, -31, -32, -33, 63, 64,
	0x7f, 0x80, 0xff, 0x100, 0x7ff, 0x800, -0x800, 0xfff, 0x1000, -0x1000,
	0x7fff, 0x8000, 0xffff, 0x10000, 1 << 20, 0x55555555, -0x55555556,
	math.MaxInt32, math.MaxInt32 - 1, math.MinInt32, math.MinInt32 + 1, 0x3fffffff, -0x40000000,
}

// Mix is a bijection on 64 bits (splitmix64 finaliser): it turns rapid's
// small-biased integers into uniformly spread ones while staying a pure
// function of the drawn value, so shrinking and replay keep working.
func Mix(x uint64) uint64 {
	x += 0x9e3779b97f4a7c15
	x = (x ^ (x >> 30)) * 0xbf58476d1ce4e5b9
	x = (x ^ (x >> 27)) * 0x94d049bb133111eb
	return x ^ (x >> 31)
}

// Value draws an int32 from a mixed distribution: the boundary lattice, small
// integers, and uniformly spread full-range values.
func Value() *rapid.Generator[int32] {
	return rapid.Custom(func(t *rapid.T) int32 {
		switch rapid.IntRange(0, 3).Draw(t, "vkind") {
		case 0:
			return rapid.SampledFrom(Lattice).Draw(t, "lat")
		case 1:
			return rapid.Int32Range(-16, 16).Draw(t, "small")
		case 2:
			return rapid.Int32().Draw(t, "i32")
		default:
			return int32(uint32(Mix(rapid.Uint64().Draw(t, "u64"))))
		}
	})
}

// AnyReg draws any of the 32 registers, with zero and ra over-represented.
func AnyReg() *rapid.Generator[int] {
	return rapid.Custom(func(t *rapid.T) int {
		switch rapid.IntRange(0, 7).Draw(t, "rkind") {
		case 0:
			return 0
		case 1:
			return 1
		default:
			return rapid.IntRange(0, 31).Draw(t, "reg")
		}
	})
}
