package main

// job is one test of the harness run as one or more shard processes.
type job struct {
	name   string
	test   string
	rapid  bool   // driven by rapid: -rapid.checks / -rapid.seed are passed
	fuzz   bool   // native go fuzzing for count seconds (thorough only)
	tier   string // "" = both tiers
	checks [2]int // rapid cases per shard (quick, thorough)
	shards [2]int
	count  [2]int // VERIF_COUNT: job-specific size (depth, repetitions, seconds)
	secs   [2]int // wall-clock guard per shard
	cores  int    // cores one shard uses (default 1)
}

func (j job) procs() int {
	if j.cores > 0 {
		return j.cores
	}
	return 1
}

type spec struct {
	jobs           []job
	rule           string
	assumptions    []string
	exhaustiveTier string
}

var specs = map[string]spec{
	"C02": {
		jobs: []job{
			{name: "lattice", test: "TestC02Lattice", shards: [2]int{8, 15}, secs: [2]int{600, 900}},
			{name: "random", test: "TestC02Random", rapid: true, checks: [2]int{4000, 300000}, shards: [2]int{8, 16}, secs: [2]int{600, 3600}},
			{name: "fuzz", test: "FuzzC02", fuzz: true, tier: "thorough", count: [2]int{0, 60}, secs: [2]int{0, 600}, cores: 8},
		},
		rule:        "One-instruction programs assembled by risc.Parse, run through ReadRegisters/WriteRegisters/MemoryRead/MemoryWrite/Run on a plain and on a rename-table context. lattice = 45 mnemonics x 40x40 boundary values x 11 register patterns (distinct, every rd/rs alias, zero in every position), exhaustive; random = rapid-drawn mnemonic, registers (any of 32), operands/immediates (lattice, small, uniformly spread int32), pc and branch target. Two oracles that must agree with each other and with the code: the reference step function and a table of closed-form 64-bit expressions. Non-trivial = operands on which two readings of the instruction differ (signed vs unsigned compare, shift amount > 31 or negative, logical vs arithmetic shift of a negative value, wrap-around of add/sub/mul, sign bit of the loaded sub-word set, negative div/rem operands, stores of values wider than a byte) — or, for the remaining mnemonics, a negative operand or a zero/aliased destination; distinct by (text, operands, pc, target, bytes, context kind).",
		assumptions: []string{"RV32IM semantics as transcribed in harness/ref (ALU/Cond/LoadValue/StoreBytes) and independently in c02Alt", "division by zero is outside C02's domain (it is C07's defined error)", "a write of 0 to the zero register is harmless"},
	},
	"C11": {
		jobs: []job{
			{name: "accepted", test: "TestC11Accepted", rapid: true, checks: [2]int{1500, 40000}, shards: [2]int{4, 8}, secs: [2]int{600, 3600}},
			{name: "mutations", test: "TestC11Mutations", rapid: true, checks: [2]int{3000, 100000}, shards: [2]int{6, 8}, secs: [2]int{600, 3600}},
			{name: "alphabet", test: "TestC11Alphabet", rapid: true, checks: [2]int{10000, 400000}, shards: [2]int{3, 4}, secs: [2]int{600, 3600}},
			{name: "bytes", test: "TestC11Bytes", rapid: true, checks: [2]int{10000, 400000}, shards: [2]int{3, 4}, secs: [2]int{600, 3600}},
			{name: "fuzz", test: "FuzzC11", fuzz: true, tier: "thorough", count: [2]int{0, 120}, secs: [2]int{0, 900}, cores: 8},
		},
		rule:        "(a) totality: risc.Parse under recover on arbitrary bytes, strings over the assembler alphabet (mnemonics, registers, digits, punctuation, huge immediates), and grammar-directed mutations of formatted valid programs (truncate, delete, insert token, drop/double parenthesis, tabs, duplicate line/label, huge immediate, drop/empty operand, 10^4-character line, token swap); every accepted text is then judged by an independent line grammar: instruction count = instruction lines, label -> 4 x index of the next instruction (either definition of a duplicate), each line this oracle can decode is probed (type, declared sets, one execution on distinct register values against the reference). (b) programs rendered from generated ASTs with drawn formatting (space/tab indentation, blank and CRLF lines, full-line and trailing comments, upper/mixed-case mnemonics, $-registers, spacing around commas and parentheses, +immediates) must be accepted, decode to the AST, and give the same observations as the plain rendering. Non-trivial = (a) input with at least one line that is a valid instruction, (b) program with a label used by a conditional branch and at least one formatting feature; distinct by text.",
		assumptions: []string{"the independent line grammar in c11_test.go (label line = one token ending in ':', instruction line = known mnemonic followed by a space or the end of the line); accepted texts with a line outside it are judged for totality only", "a rejected (error) text is a legal outcome for anything but the well-formed programs of (b)"},
	},
	"C16": {
		jobs: []job{
			{name: "lattice", test: "TestC16Lattice", secs: [2]int{300, 300}},
			{name: "random", test: "TestC16Random", rapid: true, checks: [2]int{4000, 40000}, shards: [2]int{8, 16}, secs: [2]int{300, 900}},
			{name: "exhaustive", test: "TestC16Exhaustive", tier: "thorough", shards: [2]int{0, 16}, secs: [2]int{0, 3600}},
			{name: "fuzz", test: "FuzzC16", fuzz: true, tier: "thorough", count: [2]int{0, 30}, secs: [2]int{0, 300}, cores: 8},
		},
		rule:           "32-bit patterns: lattice = every value whose four bytes come from {00,01,7f,80,81,fe,ff,55,aa} plus all 1-bit/2-bit patterns and complements; random = rapid Uint32; thorough = every one of the 2^32 patterns (each judged as a value to split and as a byte quadruple to join). Oracle: encoding/binary.LittleEndian both ways plus sw-then-lw through the instruction implementations. Non-trivial = at least one of bits 7/15/23/31 set (a sign bit of some byte); distinct by value.",
		assumptions:    []string{"encoding/binary.LittleEndian is the definition of little-endian", "the harness rebuilds /repo's working tree with -tags verif"},
		exhaustiveTier: "thorough-never", // the thorough tier also runs sampled jobs; per-job flags carry exhaustive:true
	},
}
