package main

// job is one test of the harness run as one or more shard processes.
type job struct {
	name   string
	test   string
	rapid  bool   // driven by rapid: -rapid.checks / -rapid.seed are passed
	fuzz   bool   // native go fuzzing for count seconds (thorough only)
	tier   string // "" = both tiers
	checks [2]int // rapid cases per shard (quick, thorough)
	shards [2]int
	count  [2]int // VERIF_COUNT: job-specific size (depth, repetitions, seconds)
	secs   [2]int // wall-clock guard per shard
	cores  int    // cores one shard uses (default 1)
}

func (j job) procs() int {
	if j.cores > 0 {
		return j.cores
	}
	return 1
}

type spec struct {
	jobs           []job
	rule           string
	assumptions    []string
	exhaustiveTier string
}

var specs = map[string]spec{
	"C16": {
		jobs: []job{
			{name: "lattice", test: "TestC16Lattice", secs: [2]int{300, 300}},
			{name: "random", test: "TestC16Random", rapid: true, checks: [2]int{4000, 40000}, shards: [2]int{8, 16}, secs: [2]int{300, 900}},
			{name: "exhaustive", test: "TestC16Exhaustive", tier: "thorough", shards: [2]int{0, 16}, secs: [2]int{0, 3600}},
			{name: "fuzz", test: "FuzzC16", fuzz: true, tier: "thorough", count: [2]int{0, 30}, secs: [2]int{0, 300}, cores: 8},
		},
		rule: "32-bit patterns: lattice = every value whose four bytes come from {00,01,7f,80,81,fe,ff,55,aa} plus all 1-bit/2-bit patterns and complements; random = rapid Uint32; thorough = every one of the 2^32 patterns (each judged as a value to split and as a byte quadruple to join). Oracle: encoding/binary.LittleEndian both ways plus sw-then-lw through the instruction implementations. Non-trivial = at least one of bits 7/15/23/31 set (a sign bit of some byte); distinct by value.",
		assumptions: []string{"encoding/binary.LittleEndian is the definition of little-endian", "the harness rebuilds /repo's working tree with -tags verif"},
		exhaustiveTier: "thorough-never", // the thorough tier also runs sampled jobs; per-job flags carry exhaustive:true
	},
}
