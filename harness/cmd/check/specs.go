package main

// job is one test of the harness run as one or more shard processes.
type job struct {
	name   string
	test   string
	rapid  bool   // driven by rapid: -rapid.checks / -rapid.seed are passed
	fuzz   bool   // native go fuzzing for count seconds (thorough only)
	race   bool   // run the test under the Go race detector (a report is a violation)
	tier   string // "" = both tiers
	checks [2]int // rapid cases per shard (quick, thorough)
	shards [2]int
	count  [2]int // VERIF_COUNT: job-specific size (depth, repetitions, seconds)
	secs   [2]int // wall-clock guard per shard
	cores  int    // cores one shard uses (default 1)
}

func (j job) procs() int {
	if j.cores > 0 {
		return j.cores
	}
	return 1
}

type spec struct {
	jobs           []job
	rule           string
	assumptions    []string
	exhaustiveTier string
}

var specs = map[string]spec{
	"C06": {
		jobs: []job{
			{name: "programs", test: "TestC06Programs", rapid: true, checks: [2]int{80, 600}, shards: [2]int{8, 12}, secs: [2]int{900, 7200}},
			{name: "rigrandom", test: "TestC06RigRandom", rapid: true, checks: [2]int{2500, 40000}, shards: [2]int{4, 8}, secs: [2]int{900, 7200}},
			{name: "rigexhaustive", test: "TestC06RigExhaustive", shards: [2]int{16, 16}, count: [2]int{3, 4}, secs: [2]int{900, 14400}},
		},
		rule:        "programs = MEM/WALK/SHADOW/SHADOWSLOW/CACHE/PAIR/OWNER programs (results may be wrong for known reasons: no result-level exclusion) on MVP-7.0/7.1/8 x 1..4 cores with the invariant monitor called on every loop iteration of Run through the tick hook; the monitor reads a snapshot of every L1, the directory, the per-line lock counters, the outstanding snoop commands and (MVP-8) the L3, and checks I1 at most one Modified owner and then no Shared copy, I2 a Shared L1 line equals the next level byte for byte (covering L3 line if resident, else memory), I3 resident in L1 <=> state != Invalid when no transfer is in progress on the line (lock counters zero, no outstanding command, L3 line not locked), I4 no duplicate, aligned, full-size lines, I5 lock counters >= 0 (a recovered 'is negative' panic counts). rigrandom / rigexhaustive = the same monitor on the pipeline-less controller rig stepped exactly as CPU.Run does (snoop, then each core's read/write coroutine with the same request until done): random schedules of 1-8 requests on 2-4 cores and 3 lines with up to 2 flushes, one schedule in six a capacity schedule (core 0 writes 17-19 distinct lines so that its 16-line L1 evicts Modified lines while other cores touch the first lines around those write-backs); exhaustive = every schedule of up to k requests (3 quick, 4 thorough) of (core, read|write, line 0..1, issue delay 0..2) from 2 and 3 cores, each also with one flush of one core or of all cores at each of 15 critical cycles (around the line push at cycle 309..316), on the three variants; quiescence is required. Non-trivial = a line that was Modified on one core is later held (Modified or Shared) by another core; distinct by (program, state) or by schedule.",
		assumptions: []string{"the snapshot hook copies references and changes nothing", "'transfer in progress' = the line's lock counters are non-zero, or a snoop command for that (core, line) is outstanding, or (MVP-8) the covering L3 line is locked or has a command outstanding", "the rig steps the controllers in the order CPU.Run uses"},
	},
	"C08": {
		jobs: []job{
			{name: "determinism", test: "TestC08", rapid: true, checks: [2]int{300, 4000}, shards: [2]int{8, 8}, secs: [2]int{900, 7200}, cores: 2},
			{name: "queueiterate", test: "TestC08QueueIterate", shards: [2]int{2, 4}, count: [2]int{30000, 1000000}, secs: [2]int{600, 7200}, cores: 4},
			{name: "queuerace", test: "TestC08QueueIterate", race: true, shards: [2]int{1, 2}, count: [2]int{3000, 60000}, secs: [2]int{600, 3600}, cores: 4},
		},
		rule:        "Programs of the profiles PRESSURELOAD, MEM, SHADOWSLOW, MEMSAFE, REG (results may be wrong for known reasons: determinism is independent of correctness); each case is judged on 6 of the 33 configurations with one drawn relation against the first run R0 of a fresh machine and a freshly parsed program: repeat x5 in-process; run after 1-3 unrelated machines; 6 machines concurrently in goroutines plus two noise machines of other variants; re-use of one parsed Application for a second and third run on the same configuration and after a run on another configuration; re-use after a run of the same parsed program from another state; a chain (one parsed program first serves a forwarding variant at parallelism 3-4 in runs that are abandoned — with the division-by-zero error, through a probe 'div zero, zero, s6' that half of the programs carry and s6 = 0, and from another state, which may end in an error, a crash or an exhausted budget — and after each of them MVP-1..6.0 at parallelism 1-2 from the case's state; then a complete run, then every forwarding variant at parallelism 1 and 2; each judged run is compared with its run on a fresh parse); a child process (the test binary re-executed on the case); queueiterate = the goroutine interleavings of the queue iterator the control units use, sampled by 30 000 (10^6) repetitions on 4 OS threads under garbage-collection preemption, and (job queuerace) the same loop under the Go race detector, which reports an unsynchronised access between the iterator's producer goroutine and the consumer even when the harmful interleaving did not occur. Compared: outcome class and, for runs that return, cycle count, 32 registers and all memory. Non-trivial = the run has a memory access or a register dependence at distance <= 4; distinct by (text, registers, memory image, relation, configurations).",
		assumptions: []string{"the text of a Go panic is not part of the claim (a run that does not return has no registers, memory or cycle count)", "a budget overrun is an outcome class like any other: 'hangs once, finishes once' is a violation, 'always hangs' is C07's"},
	},
	"C12": {
		jobs: []job{
			{name: "model", test: "TestC12Model", rapid: true, checks: [2]int{200, 3000}, shards: [2]int{12, 12}, secs: [2]int{900, 7200}},
			{name: "table", test: "TestC12Table", secs: [2]int{300, 300}},
			{name: "valueindep", test: "TestC12ValueIndependence", rapid: true, checks: [2]int{150, 2000}, shards: [2]int{6, 6}, secs: [2]int{900, 7200}},
		},
		rule:        "model = programs of the profiles REG/MEM/WALK/MEMSAFE and JUMPS (chains of jumps between blocks of 1-3 instructions laid out in a drawn order with 0-30 never-executed instructions between them, visited in another order: fetch keeps leaving the cached window forwards and backwards): MVP-1's count must equal the sum over the executed instructions (reference trace) of fetch (MemoryAccess) + decode 1 + memory read for a load (MemoryAccess) + InstructionType.Cycles() + write-back (RegisterAccess for a register result, MemoryAccess for a store; ret counts up to execute), the constants being read from common/latency and from the code so that the formula is the oracle; MVP-2 <= MVP-1 on the same run; on every configuration cycles > 0 and cycles >= ceil(executed / max(2, parallelism)) — the relations that use the executed-instruction count are judged only on runs whose result equals the reference. table = the 6 constants of common/latency and InstructionType.Cycles() of the 45 types against the documented values (loads 50, everything else 1), enumerated completely. valueindep = programs whose registers are split into control/address registers and data registers (data never feeds a branch, an address or a divisor; loads write data registers only), including conditional branches on data registers whose target is the next instruction (taken or not, the path is the same), two initial states that differ only in data registers, the reference confirming identical pc and address traces: the cycle counts must be equal on every configuration. Non-trivial = (model) the trace has a load, a store and a taken transfer, or is a jump chain of >= 6 executed instructions, (valueindep) the two runs end with different registers; distinct by (text, registers, memory image).",
		assumptions: []string{"the documented latency table is the one of the pinned commit (common/latency cites its source; TestBenchmarks pins cycle counts derived from it): job 'table' compares the constants with it", "issue width bound max(2, parallelism) is deliberately loose"},
	},
	"C13": {
		jobs: []job{
			{name: "linecache", test: "TestC13LineCache", rapid: true, checks: [2]int{15000, 150000}, shards: [2]int{8, 16}, secs: [2]int{600, 7200}},
			{name: "keyvalue", test: "TestC13KeyValue", rapid: true, checks: [2]int{15000, 200000}, shards: [2]int{4, 8}, secs: [2]int{600, 7200}},
			{name: "exhaustive", test: "TestC13Exhaustive", shards: [2]int{4, 16}, count: [2]int{5, 7}, secs: [2]int{600, 7200}},
		},
		rule:        "Histories of push (PushLine), pushwarn (PushLineWithEvictionWarning followed by EvictCacheLine of the reported victim), get, write, evict, GetCacheLine and GetSubCacheLine on comp.LRUCache against a model holding the resident lines, their bytes and two recency orders (Write refreshing recency or not: the reported victim is asserted when both agree, else either is accepted and counted); after every step all resident lines are compared with the model (count <= capacity, no duplicates, aligned, bytes). Geometries (line bytes x lines): 2x3, 4x4, 64x16, 128x32, 8x2, 16x1 and drawn ones; exhaustive = every history of length <= k (5 quick, 7 thorough) of push/get/write/evict over 4 lines in a 2-line cache. keyvalue = Put/Get/Find histories on common/cache.LRUCache against a recency list. Non-trivial = the history inserts into a full cache after a Get changed the order or a Write happened; distinct by history.",
		assumptions: []string{"callers insert only non-resident, line-aligned bases and write only to resident addresses (Write panics otherwise by contract)", "whether Write refreshes recency is unspecified: both readings are accepted"},
	},
	"C14": {
		jobs: []job{
			{name: "random", test: "TestC14Buses", rapid: true, checks: [2]int{8000, 200000}, shards: [2]int{8, 8}, secs: [2]int{600, 7200}, cores: 2},
			{name: "exhaustive", test: "TestC14Exhaustive", shards: [2]int{5, 5}, count: [2]int{7, 9}, secs: [2]int{600, 7200}},
			{name: "queueiterate", test: "TestC14QueueIterate", shards: [2]int{2, 4}, count: [2]int{30000, 1000000}, secs: [2]int{600, 7200}, cores: 4},
			{name: "queuerace", test: "TestC14QueueIterate", race: true, shards: [2]int{1, 2}, count: [2]int{3000, 60000}, secs: [2]int{600, 3600}, cores: 4},
		},
		rule:        "Histories of add (only while CanAdd), tick (cycle+1, Connect), get, pick, revert (of the item just taken), delete-last and clean on comp.BufferedBus(in,out) for capacities 1..4 against a buffer/queue model with an explicit cycle counter, on comp.SimpleBus against a two-slot latch, and push/iterate/remove histories on comp.Queue; after every step the observers (CanGet, CanAdd, IsEmpty, RemainingToAdd, PendingRead, Exists) are compared, every delivery is checked for exactly-once, insertion order (first match for Pick) and cycle > cycle of its Add, and at the end the bus is drained: every item added and not withdrawn came out once. exhaustive = all sequences of length <= k (7 quick, 9 thorough) of the 9 actions for capacities 1..2 and the simple bus. queueiterate = 30 000 (thorough 10^6) repetitions on 4 OS threads of 'iterate a queue of 2..10 elements while removing the elements handed out', the way the control units use comp.Queue: goroutine interleavings of the iterator's producer are sampled by repetition; every element must be visited in order; queuerace = the same loop under the Go race detector (a reported data race is a violation). Non-trivial = back-pressure occurred (an add was refused) and >= 3 items were delivered; distinct by history.",
		assumptions: []string{"the pipeline's usage: one Connect per cycle, producers add only while CanAdd is true", "Broadcast is not a pipeline bus in the statement's sense and is not modelled"},
	},
	"C15": {
		jobs: []job{
			{name: "context", test: "TestC15Context", rapid: true, checks: [2]int{20000, 250000}, shards: [2]int{8, 16}, secs: [2]int{600, 7200}},
			{name: "rat", test: "TestC15RAT", rapid: true, checks: [2]int{15000, 200000}, shards: [2]int{4, 8}, secs: [2]int{600, 7200}},
			{name: "exhaustive", test: "TestC15Exhaustive", shards: [2]int{4, 15}, count: [2]int{5, 6}, secs: [2]int{600, 7200}},
		},
		rule:        "context = histories of write(reg, value, tag) / read(reg, tag) / commit / rollback(tag) (the tag of a write itself included: that write is not older than the tag) over three registers on risc.Context, transaction map or rename table, reads made through a parsed 'mv t6, reg' instruction so that registerRead is the path exercised, tags drawn in increasing order (75%) or arbitrarily; model = architectural value plus the uncommitted writes per register; after commit/rollback every register is compared with 'youngest write (older than the tag)', a tagged read must never return a value written by a younger tag, and within the sub-domain 'tags in order and writes within the slots' reads are compared exactly. rat = Write/Read/Find/Values/FindValues histories on comp.RAT (ring 2..10, 3 keys) against a ring model; exhaustive = all histories of length <= k (5 quick, 6 thorough) of 15 actions over 2 keys, 3 values and rings 2 and 3. Non-trivial = (context) a rollback that keeps some writes of a register and discards others, (rat) a Find that has to skip the newest slot; distinct by history.",
		assumptions: []string{"tags are distinct per in-flight instruction; equal tags resolve to the later arrival", "out-of-order tag arrival is excluded from the value claims while finding F14 is listed in known-findings.txt (the never-younger read claim is judged regardless)"},
	},
	"C01": {
		jobs:        []job{{name: "mixed", test: "TestC01", rapid: true, checks: [2]int{1000, 15000}, shards: [2]int{16, 16}, secs: [2]int{900, 7200}}},
		rule:        "Programs drawn by the concolic builder from the profiles REG 38% / MEM 30% / SHADOW 15% / WALK 9% / OWNER 8% (OWNER = lines owned by one core, shared lines upgraded, and memory work waiting behind a cache miss while a younger taken branch or first-time jump redirects the pipeline) (3-60 static instructions in quick, up to 200 in thorough; all mnemonics; full-range initial registers; memory images 64 B - 16 KB; exit by ret or fall-through), each run on all 33 configurations (12 variants, parallelism 1..4) and compared with the reference: 32 registers, every memory byte, no error, no panic, within the budget. Non-trivial = >= 5 executed instructions, >= 1 register written and two adjacent independent instructions in the trace; distinct by (program text, registers, memory image).",
		assumptions: []string{"the reference interpreter harness/ref is the sequential semantics (cross-checked per instruction by C02)", "parallelism p means EU = WU = p on MVP-6.x and p cores on MVP-7.x/8", "a case matching the trigger of a finding listed in /verif/known-findings.txt is not judged on the configurations of that finding (counted under excluded_by_known_finding)", "budget of simulated loop iterations = 16 x (executed instructions + 64) x 309, never wall-clock"},
	},
	"C03": {
		jobs:        []job{{name: "shadow", test: "TestC03", rapid: true, checks: [2]int{1000, 20000}, shards: [2]int{16, 16}, secs: [2]int{900, 7200}}},
		rule:        "SHADOW / SHADOWSLOW programs: taken conditional branches (70%) and j/jal/jalr over shadows of 1-4 hostile instructions (register writes, stores of every width, in-bounds loads, loads from out-of-bounds and negative addresses, div/rem by the zero register, jal, a further branch), branch operands produced by ALU instructions or by loads issued right before the branch (hit or miss: the branch resolves 1 to ~300 cycles after its shadow was dispatched), loop back-edges whose shadow is the loop exit code; run on all 33 configurations (MVP-1..3 as anchors) and compared with the reference. Non-trivial = some control transfer is taken in the reference run and re-running the reference with that transfer forced to fall through changes the final state or faults (the shadow is hostile); distinct by (text, registers, memory image).",
		assumptions: []string{"the reference interpreter harness/ref is the sequential semantics (cross-checked per instruction by C02)", "parallelism p means EU = WU = p on MVP-6.x and p cores on MVP-7.x/8", "a case matching the trigger of a finding listed in /verif/known-findings.txt is not judged on the configurations of that finding (counted under excluded_by_known_finding)", "budget of simulated loop iterations = 16 x (executed instructions + 64) x 309, never wall-clock"},
	},
	"C04": {
		jobs: []job{
			{name: "pressure", test: "TestC04", rapid: true, checks: [2]int{300, 8000}, shards: [2]int{16, 16}, secs: [2]int{900, 7200}},
			{name: "forward", test: "TestC04Forward", shards: [2]int{4, 4}, secs: [2]int{600, 600}},
		},
		rule:        "forward = one-instruction programs, enumerated: every mnemonic that reads a register x source operand x 14x14 lattice values x four register patterns x plain / rename-table context; the operand's true value is delivered through the forwarding channel while the register file holds another value, and the architectural effect (C02's two oracles) must be the one of the true value. pressure = PRESSURE (2-3 registers, ALU only), PRESSURELOAD (2-4 registers, load producers, slow branches) and PRESSUREMEM (also stores, to the half of memory the loads do not read: a store miss keeps a write unit busy while register results queue up behind it) programs of 3-24 instructions: chains, fans, WAW and WAR pairs, mixed-latency producers, chained forwards; each (case, configuration) is run three times in one process: all three must equal the reference and return the same cycle count. Non-trivial = the dynamic trace holds a RAW, WAW or WAR register dependence at distance <= 4 (classes dep:raw, dep:waw, dep:war, dep:raw-load-producer, dep:chained are counted); distinct by (text, registers, memory image).",
		assumptions: []string{"the reference interpreter harness/ref is the sequential semantics (cross-checked per instruction by C02)", "parallelism p means EU = WU = p on MVP-6.x and p cores on MVP-7.x/8", "a case matching the trigger of a finding listed in /verif/known-findings.txt is not judged on the configurations of that finding (counted under excluded_by_known_finding)", "budget of simulated loop iterations = 16 x (executed instructions + 64) x 309, never wall-clock"},
	},
	"C05": {
		jobs:        []job{{name: "cache", test: "TestC05", rapid: true, checks: [2]int{400, 8000}, shards: [2]int{16, 16}, secs: [2]int{900, 7200}}},
		rule:        "CACHE (random aligned lb/lh/lw/sb/sh/sw spread over all lines of 2-16 KB memories), WALK (strided loops, strides 1..1024, loads folded into a checksum register, read-modify-write walks) MEMSAFE (loads and stores on disjoint halves) and OWNER (owned and shared lines, accesses waiting behind a miss while the pipeline is redirected) programs on the 29 configurations with a data cache (MVP-3..8), compared with the reference registers and the whole memory after Run returns. Non-trivial = the run touches more than 16 lines of 64 bytes (the smallest data cache) and some line is written, evicted (ideal-LRU replay of that geometry over the reference trace) and read again; distinct by (text, registers, memory image).",
		assumptions: []string{"the reference interpreter harness/ref is the sequential semantics (cross-checked per instruction by C02)", "parallelism p means EU = WU = p on MVP-6.x and p cores on MVP-7.x/8", "a case matching the trigger of a finding listed in /verif/known-findings.txt is not judged on the configurations of that finding (counted under excluded_by_known_finding)", "budget of simulated loop iterations = 16 x (executed instructions + 64) x 309, never wall-clock"},
	},
	"C07": {
		jobs: []job{
			{name: "terminates", test: "TestC07Terminates", rapid: true, checks: [2]int{700, 15000}, shards: [2]int{12, 12}, secs: [2]int{900, 7200}},
			{name: "errors", test: "TestC07Errors", rapid: true, checks: [2]int{400, 20000}, shards: [2]int{4, 4}, secs: [2]int{900, 7200}},
		},
		rule:        "terminates: programs of the profiles REG, MEM, SHADOW, WALK, SHADOWSLOW, MEMSAFE, OWNER on all 33 configurations; the outcome must be ok within the budget of simulated loop iterations (a recovered Go panic, a budget overrun or an error is a violation; values are not compared). errors: programs that reach a defined error on the executed path — div/rem by the zero register or by a register holding 0, a taken branch or a jump to an undefined label — early, late, inside a counted loop, right after a long-latency load, or as a slow fault (the dividend is loaded right before, so the division waits while a ret, a taken branch or a first-time jump behind it goes ahead and the error is raised inside a drain loop); the outcome must be an error value (ok, a panic or a budget overrun is a violation). Non-trivial = (terminates) the run has a memory access or a taken transfer, (errors) the reference reaches the fault (always, else the case is skipped); distinct by (text, registers, memory image).",
		assumptions: []string{"the reference interpreter harness/ref is the sequential semantics (cross-checked per instruction by C02)", "parallelism p means EU = WU = p on MVP-6.x and p cores on MVP-7.x/8", "a case matching the trigger of a finding listed in /verif/known-findings.txt is not judged on the configurations of that finding (counted under excluded_by_known_finding)", "budget of simulated loop iterations = 16 x (executed instructions + 64) x 309, never wall-clock"},
	},
	"C09": {
		jobs:        []job{{name: "tail", test: "TestC09", rapid: true, checks: [2]int{1000, 25000}, shards: [2]int{16, 16}, secs: [2]int{900, 7200}}},
		rule:        "TAIL programs on the 30 pipelined configurations (MVP-4..8): a random body, then 1-5 controlled last instructions (load missing every cache, load hitting, store to a never-touched line, store to a resident line, two stores back to back, a dependent chain, a producer with no later reader), then the exit point: ret, fall-through, or a taken branch to a final ret; compared with the reference registers and memory. Non-trivial = one of the last five executed instructions is a load or a store (needs >= 3 more cycles at the exit point); distinct by (text, registers, memory image).",
		assumptions: []string{"the reference interpreter harness/ref is the sequential semantics (cross-checked per instruction by C02)", "parallelism p means EU = WU = p on MVP-6.x and p cores on MVP-7.x/8", "a case matching the trigger of a finding listed in /verif/known-findings.txt is not judged on the configurations of that finding (counted under excluded_by_known_finding)", "budget of simulated loop iterations = 16 x (executed instructions + 64) x 309, never wall-clock"},
	},
	"C10": {
		jobs:        []job{{name: "pairs", test: "TestC10", rapid: true, checks: [2]int{1000, 20000}, shards: [2]int{16, 16}, secs: [2]int{900, 7200}}},
		rule:        "PAIR programs on the 30 pipelined configurations: store->load, load->store and store->store pairs on the same byte/half/word, on different bytes of one word and on another word of the line, at dynamic distance 1..12, through two independent address registers (no register hazard orders the pair), first access hit or miss (line pre-touched or not), optionally separated by a taken branch; compared with the reference (loaded values and memory). Non-trivial = the reference trace holds a byte-overlapping conflicting pair at distance <= 14 (classes conflict:<kind>:<distance bucket>); distinct by (text, registers, memory image).",
		assumptions: []string{"the reference interpreter harness/ref is the sequential semantics (cross-checked per instruction by C02)", "parallelism p means EU = WU = p on MVP-6.x and p cores on MVP-7.x/8", "a case matching the trigger of a finding listed in /verif/known-findings.txt is not judged on the configurations of that finding (counted under excluded_by_known_finding)", "budget of simulated loop iterations = 16 x (executed instructions + 64) x 309, never wall-clock"},
	},
	"C02": {
		jobs: []job{
			{name: "lattice", test: "TestC02Lattice", shards: [2]int{8, 15}, secs: [2]int{600, 900}},
			{name: "random", test: "TestC02Random", rapid: true, checks: [2]int{12000, 300000}, shards: [2]int{8, 16}, secs: [2]int{600, 3600}},
			{name: "fuzz", test: "FuzzC02", fuzz: true, tier: "thorough", count: [2]int{0, 60}, secs: [2]int{0, 600}, cores: 8},
		},
		rule:        "One-instruction programs assembled by risc.Parse, run through ReadRegisters/WriteRegisters/MemoryRead/MemoryWrite/Run on a plain and on a rename-table context; the declared classification (InstructionType.IsMemoryRead/IsMemoryWrite/IsConditionalBranch/IsUnconditionalBranch/IsBranch, which the control units consult instead of the sets) must agree with what the instruction does. lattice = 45 mnemonics x 40x40 boundary values x 11 register patterns (distinct, every rd/rs alias, zero in every position), exhaustive; random = rapid-drawn mnemonic, registers (any of 32), operands/immediates (lattice, small, uniformly spread int32), pc and branch target. Two oracles that must agree with each other and with the code: the reference step function and a table of closed-form 64-bit expressions. Non-trivial = operands on which two readings of the instruction differ (signed vs unsigned compare, shift amount > 31 or negative, logical vs arithmetic shift of a negative value, wrap-around of add/sub/mul, sign bit of the loaded sub-word set, negative div/rem operands, stores of values wider than a byte) — or, for the remaining mnemonics, a negative operand or a zero/aliased destination; distinct by (text, operands, pc, target, bytes, context kind).",
		assumptions: []string{"RV32IM semantics as transcribed in harness/ref (ALU/Cond/LoadValue/StoreBytes) and independently in c02Alt", "division by zero is outside C02's domain (it is C07's defined error)", "a write of 0 to the zero register is harmless"},
	},
	"C11": {
		jobs: []job{
			{name: "accepted", test: "TestC11Accepted", rapid: true, checks: [2]int{5000, 40000}, shards: [2]int{4, 8}, secs: [2]int{600, 3600}},
			{name: "mutations", test: "TestC11Mutations", rapid: true, checks: [2]int{10000, 100000}, shards: [2]int{6, 8}, secs: [2]int{600, 3600}},
			{name: "alphabet", test: "TestC11Alphabet", rapid: true, checks: [2]int{30000, 400000}, shards: [2]int{3, 4}, secs: [2]int{600, 3600}},
			{name: "bytes", test: "TestC11Bytes", rapid: true, checks: [2]int{30000, 400000}, shards: [2]int{3, 4}, secs: [2]int{600, 3600}},
			{name: "fuzz", test: "FuzzC11", fuzz: true, tier: "thorough", count: [2]int{0, 120}, secs: [2]int{0, 900}, cores: 8},
		},
		rule:        "(a) totality: risc.Parse under recover on arbitrary bytes, strings over the assembler alphabet (mnemonics, registers, digits, punctuation, huge immediates), and grammar-directed mutations of formatted valid programs (truncate, delete, insert token, drop/double parenthesis, tabs, duplicate line/label, huge immediate, drop/empty operand, 10^4-character line, token swap); every accepted text is then judged by an independent line grammar: instruction count = instruction lines, label -> 4 x index of the next instruction (either definition of a duplicate), each line this oracle can decode is probed (type, declared sets, one execution on distinct register values against the reference). (b) programs rendered from generated ASTs with drawn formatting (space/tab indentation, blank and CRLF lines, full-line and trailing comments, upper/mixed-case mnemonics, $-registers, spacing around commas and parentheses, +immediates) must be accepted, decode to the AST, and give the same observations as the plain rendering. Non-trivial = (a) input with at least one line that is a valid instruction, (b) program with a label used by a conditional branch and at least one formatting feature; distinct by text.",
		assumptions: []string{"the independent line grammar in c11_test.go (label line = one token ending in ':', instruction line = known mnemonic followed by a space or the end of the line); accepted texts with a line outside it are judged for totality only", "a rejected (error) text is a legal outcome for anything but the well-formed programs of (b)"},
	},
	"C16": {
		jobs: []job{
			{name: "lattice", test: "TestC16Lattice", secs: [2]int{300, 300}},
			{name: "random", test: "TestC16Random", rapid: true, checks: [2]int{10000, 40000}, shards: [2]int{8, 16}, secs: [2]int{300, 900}},
			{name: "exhaustive", test: "TestC16Exhaustive", tier: "thorough", shards: [2]int{0, 16}, secs: [2]int{0, 3600}},
			{name: "fuzz", test: "FuzzC16", fuzz: true, tier: "thorough", count: [2]int{0, 30}, secs: [2]int{0, 300}, cores: 8},
		},
		rule:           "32-bit patterns: lattice = every value whose four bytes come from {00,01,7f,80,81,fe,ff,55,aa} plus all 1-bit/2-bit patterns and complements; random = rapid Uint32; thorough = every one of the 2^32 patterns (each judged as a value to split and as a byte quadruple to join). Oracle: encoding/binary.LittleEndian both ways plus sw-then-lw through the instruction implementations. Non-trivial = at least one of bits 7/15/23/31 set (a sign bit of some byte); distinct by value.",
		assumptions:    []string{"encoding/binary.LittleEndian is the definition of little-endian", "the harness rebuilds /repo's working tree with -tags verif"},
		exhaustiveTier: "thorough-never", // the thorough tier also runs sampled jobs; per-job flags carry exhaustive:true
	},
}
