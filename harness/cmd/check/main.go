// Command check is the driver behind every MANIFEST command:
//
//	check <id> quick|thorough     run the property's jobs, merge the evidence
//	check <id> --replay <path>    re-judge one replay file
//
// Exit 0: held on everything explored (KNOWN-FINDING lines allowed);
// exit 1 + "VIOLATION property=<id> replay=<path>": a violation;
// exit 2: infrastructure trouble (build failure, guard expiry, dead worker),
// never accompanied by a VIOLATION line.
package main

import (
	"bytes"
	"context"
	"encoding/json"
	"fmt"
	"os"
	"os/exec"
	"path/filepath"
	"regexp"
	"sort"
	"strconv"
	"strings"
	"sync"
	"time"

	"verif/evid"
)

func root() string {
	if r := os.Getenv("VERIF_ROOT"); r != "" {
		return r
	}
	return "/verif"
}

func goEnv() []string {
	env := os.Environ()
	env = append(env, "GOFLAGS=-mod=mod", "GOPROXY=off", "GOSUMDB=off", "GOTOOLCHAIN=local", "CGO_ENABLED=0")
	return env
}

func fatal2(format string, a ...any) {
	fmt.Printf("INFRA: "+format+"\n", a...)
	os.Exit(2)
}

func splitmix(x uint64) uint64 {
	x += 0x9e3779b97f4a7c15
	x = (x ^ (x >> 30)) * 0xbf58476d1ce4e5b9
	x = (x ^ (x >> 27)) * 0x94d049bb133111eb
	return x ^ (x >> 31)
}

func hashStr(s string) uint64 {
	var h uint64 = 1469598103934665603
	for i := 0; i < len(s); i++ {
		h ^= uint64(s[i])
		h *= 1099511628211
	}
	return h
}

// outRoot is where run-time files go (VERIF_OUTROOT, default <root>/out).
func outRoot() string {
	if r := os.Getenv("VERIF_OUTROOT"); r != "" {
		return r
	}
	return filepath.Join(root(), "out")
}

// evidenceDir is where the evidence file is written (VERIF_EVIDENCE_DIR,
// default <root>/evidence).
func evidenceDir() string {
	if r := os.Getenv("VERIF_EVIDENCE_DIR"); r != "" {
		return r
	}
	return filepath.Join(root(), "evidence")
}

func build(outDir string) string { return buildBin(outDir, "", false) }

// buildBin compiles the harness test binary against /repo; with a fuzz target
// name it builds the coverage-instrumented variant native fuzzing needs.
func buildBin(outDir, fuzz string, race bool) string {
	bin := filepath.Join(outDir, "checks.test")
	args := []string{"test", "-c", "-tags", "verif", "-o", bin}
	if race {
		// the same harness under the Go race detector (jobs that sample goroutine
		// hand-overs: an unsynchronised access is reported even when the
		// interleaving that would corrupt a result did not occur)
		bin = filepath.Join(outDir, "race-checks.test")
		args = []string{"test", "-c", "-race", "-tags", "verif", "-o", bin}
	}
	if fuzz != "" {
		bin = filepath.Join(outDir, "fuzz-"+fuzz+".test")
		args = []string{"test", "-c", "-tags", "verif", "-fuzz", "^" + fuzz + "$", "-o", bin}
	}
	if alt := os.Getenv("VERIF_REPO"); alt != "" {
		// development aid: judge another copy of the repository (a scratch
		// worktree holding a seeded change) without touching /repo
		mod, err := os.ReadFile(filepath.Join(root(), "harness", "go.mod"))
		if err != nil {
			fatal2("%v", err)
		}
		alt, _ = filepath.Abs(alt)
		m := strings.Replace(string(mod), "=> /repo", "=> "+alt, 1)
		modfile := filepath.Join(outDir, "go.mod")
		sum, _ := os.ReadFile(filepath.Join(root(), "harness", "go.sum"))
		if os.WriteFile(modfile, []byte(m), 0o644) != nil || os.WriteFile(filepath.Join(outDir, "go.sum"), sum, 0o644) != nil {
			fatal2("cannot write the alternate go.mod")
		}
		args = append(args, "-modfile", modfile)
	}
	args = append(args, "./checks")
	cmd := exec.Command("go", args...)
	cmd.Dir = filepath.Join(root(), "harness")
	cmd.Env = goEnv()
	if race {
		cmd.Env = append(cmd.Env, "CGO_ENABLED=1") // the race detector needs cgo
	}
	var buf bytes.Buffer
	cmd.Stdout, cmd.Stderr = &buf, &buf
	if err := cmd.Run(); err != nil {
		if race {
			// no usable race detector here: the race jobs are skipped (noted in the
			// evidence), the other jobs decide
			raceBuildError = fmt.Sprintf("%v: %s", err, tail(buf.String(), 5))
			return ""
		}
		fatal2("building the harness against /repo failed: %v\n%s", err, buf.String())
	}
	return bin
}

var raceBuildError string

type shardRun struct {
	job    job
	shard  int
	shards int
	seed   uint64
	checks int
	count  int
}

type shardResult struct {
	run    shardRun
	exit   int
	killed bool
	out    string
	file   string
	dur    time.Duration
}

func runShard(bin, outDir, prop, tier string, verifSeed uint64, r shardRun, timeout time.Duration) shardResult {
	work := filepath.Join(outDir, fmt.Sprintf("work-%s-s%d", r.job.name, r.shard))
	_ = os.RemoveAll(work)
	_ = os.MkdirAll(work, 0o755)
	args := []string{"-test.run", "^" + r.job.test + "$", "-test.timeout", "0", "-test.count", "1"}
	if r.job.rapid {
		args = append(args, "-rapid.checks", strconv.Itoa(r.checks), "-rapid.seed", strconv.FormatUint(r.seed, 10), "-rapid.nofailfile", "-rapid.shrinktime", "20s")
	}
	if r.job.fuzz {
		args = []string{"-test.run", "^$", "-test.fuzz", "^" + r.job.test + "$", "-test.fuzztime", fmt.Sprintf("%ds", r.count), "-test.fuzzcachedir", filepath.Join(work, "fuzzcache"), "-test.timeout", "0", "-test.parallel", "8"}
	}
	ctx, cancel := context.WithTimeout(context.Background(), timeout)
	defer cancel()
	cmd := exec.CommandContext(ctx, bin, args...)
	cmd.Dir = work
	cmd.Env = append(os.Environ(),
		"VERIF_ROOT="+root(), "VERIF_TIER="+tier, "VERIF_OUT="+outDir, "VERIF_PROP="+prop,
		"VERIF_SEED="+strconv.FormatUint(verifSeed, 10),
		"VERIF_SHARD="+strconv.Itoa(r.shard), "VERIF_SHARDS="+strconv.Itoa(r.shards),
		"VERIF_COUNT="+strconv.Itoa(r.count), "VERIF_JOB="+r.job.name,
		"GOMAXPROCS="+strconv.Itoa(r.job.procs()))
	var buf bytes.Buffer
	cmd.Stdout, cmd.Stderr = &buf, &buf
	start := time.Now()
	err := cmd.Run()
	res := shardResult{run: r, out: buf.String(), dur: time.Since(start)}
	res.file = filepath.Join(outDir, fmt.Sprintf("shard-%s-%s-s%d.json", prop, r.job.name, r.shard))
	if ctx.Err() != nil {
		res.killed = true
		res.exit = -1
		return res
	}
	if err != nil {
		if ee, ok := err.(*exec.ExitError); ok {
			res.exit = ee.ExitCode()
		} else {
			res.exit = -2
		}
	}
	return res
}

var passedRe = regexp.MustCompile(`OK, passed (\d+) tests`)

func main() {
	if len(os.Args) < 3 {
		fmt.Println("usage: check <id> quick|thorough | check <id> --replay <path>")
		os.Exit(2)
	}
	prop := os.Args[1]
	spec, ok := specs[prop]
	if !ok {
		fatal2("unknown property %s", prop)
	}
	if os.Args[2] == "--replay" {
		if len(os.Args) < 4 {
			fatal2("--replay needs a path")
		}
		replay(prop, os.Args[3])
		return
	}
	tier := os.Args[2]
	if tier != "quick" && tier != "thorough" {
		fatal2("tier must be quick or thorough")
	}
	ti := 0
	if tier == "thorough" {
		ti = 1
	}
	verifSeed, _ := strconv.ParseUint(os.Getenv("VERIF_SEED"), 10, 64)
	if verifSeed == 0 {
		verifSeed = 1
	}
	start := time.Now()
	outDir := filepath.Join(outRoot(), prop)
	_ = os.RemoveAll(outDir)
	if err := os.MkdirAll(outDir, 0o755); err != nil {
		fatal2("%v", err)
	}
	evPath := filepath.Join(evidenceDir(), prop+".json")
	_ = os.MkdirAll(filepath.Dir(evPath), 0o755)
	_ = os.Remove(evPath)
	bin := build(outDir)

	var runs []shardRun
	jobs := append([]job{{name: "witnesses", test: "TestWitnesses", shards: [2]int{1, 1}, secs: [2]int{600, 1800}}}, spec.jobs...)
	for _, j := range jobs {
		if j.tier != "" && j.tier != tier {
			continue
		}
		if j.name == "witnesses" && os.Getenv("VERIF_NOWITNESS") != "" {
			// development aid (sensitivity trials): judge by generated search only
			continue
		}
		n := j.shards[ti]
		if n == 0 {
			n = 1
		}
		for s := 0; s < n; s++ {
			seed := splitmix(verifSeed*0x100000001b3 ^ hashStr(prop+"/"+j.name) ^ uint64(s)<<48)
			if seed == 0 {
				seed = 1
			}
			seed &= 0x7fffffffffffffff
			runs = append(runs, shardRun{job: j, shard: s, shards: n, seed: seed, checks: j.checks[ti], count: j.count[ti]})
		}
	}
	fuzzBins := map[string]string{}
	for _, r := range runs {
		if r.job.fuzz && fuzzBins[r.job.test] == "" {
			fuzzBins[r.job.test] = buildBin(outDir, r.job.test, false)
		}
	}
	raceBin := ""
	for _, r := range runs {
		if r.job.race && raceBin == "" && raceBuildError == "" {
			raceBin = buildBin(outDir, "", true)
		}
	}
	if raceBin == "" {
		kept := runs[:0]
		for _, r := range runs {
			if !r.job.race {
				kept = append(kept, r)
			}
		}
		runs = kept
	}
	maxPar := 16
	if v, err := strconv.Atoi(os.Getenv("VERIF_PAR")); err == nil && v > 0 {
		maxPar = v
	}
	sem := make(chan struct{}, maxPar)
	var acquire sync.Mutex
	results := make([]shardResult, len(runs))
	var wg sync.WaitGroup
	for i, r := range runs {
		wg.Add(1)
		go func(i int, r shardRun) {
			defer wg.Done()
			w := r.job.procs()
			if w > maxPar {
				w = maxPar
			}
			// all the tokens of a job are taken under one lock: two jobs that each
			// hold a part of what they need would wait for each other for ever
			acquire.Lock()
			for k := 0; k < w; k++ {
				sem <- struct{}{}
			}
			acquire.Unlock()
			secs := r.job.secs[ti]
			if secs == 0 {
				secs = 900
			}
			b := bin
			if r.job.fuzz {
				b = fuzzBins[r.job.test]
			}
			if r.job.race {
				b = raceBin
			}
			results[i] = runShard(b, outDir, prop, tier, verifSeed, r, time.Duration(secs)*time.Second)
			for k := 0; k < w; k++ {
				<-sem
			}
		}(i, r)
	}
	wg.Wait()

	// merge
	type jobSum struct {
		Evaluations int64    `json:"evaluations"`
		Nontrivial  int64    `json:"distinct_nontrivial"`
		Shards      int      `json:"shards"`
		Exhaustive  bool     `json:"exhaustive,omitempty"`
		WallS       float64  `json:"wall_s"`
		Requested   int      `json:"requested_cases_per_shard,omitempty"`
		Passed      []int    `json:"rapid_passed,omitempty"`
		Fuzz        string   `json:"fuzz,omitempty"`
		Notes       []string `json:"notes,omitempty"`
	}
	var (
		evals      int64
		bulk       int64
		hashes     = map[uint64]struct{}{}
		classes    = map[string]int64{}
		excluded   = map[string]int64{}
		perConfig  = map[string]int64{}
		skipped    int64
		samples    []json.RawMessage
		notes      []string
		known      []string
		violations []evid.Violation
		infra      []string
		perJob     = map[string]*jobSum{}
		jobHashes  = map[string]map[uint64]struct{}{}
		exhaustAll = true
		anyExh     = false
	)
	for _, res := range results {
		name := res.run.job.name
		js := perJob[name]
		if js == nil {
			js = &jobSum{Exhaustive: true}
			perJob[name] = js
			jobHashes[name] = map[uint64]struct{}{}
		}
		js.Shards++
		if res.run.job.rapid {
			js.Requested = res.run.checks
		}
		if res.killed {
			infra = append(infra, fmt.Sprintf("job %s shard %d exceeded its wall-clock guard (%ds)", name, res.run.shard, res.run.job.secs[ti]))
			continue
		}
		if res.run.job.fuzz {
			// native fuzzing: a crasher is a violation, saved by the Go tool
			js.Exhaustive = false
			js.Fuzz = lastLines(res.out, 2)
			if res.exit != 0 {
				crash := findCrasher(res.out, filepath.Join(outDir, fmt.Sprintf("work-%s-s%d", name, res.run.shard)))
				if crash == "" {
					infra = append(infra, fmt.Sprintf("fuzz job %s failed without a crasher:\n%s", name, tail(res.out, 30)))
				} else {
					violations = append(violations, evid.Violation{Replay: crash, Message: "native fuzzing crasher: " + lastLines(res.out, 6)})
				}
			}
			continue
		}
		sh, err := evid.Read(res.file)
		if err != nil {
			infra = append(infra, fmt.Sprintf("job %s shard %d left no result file (exit %d):\n%s", name, res.run.shard, res.exit, tail(res.out, 40)))
			continue
		}
		if res.exit != 0 && len(sh.Violations) == 0 && res.run.job.race && strings.Contains(res.out, "WARNING: DATA RACE") {
			// the race detector saw an unsynchronised access: the report is the
			// reproduction (the interleaving itself cannot be replayed)
			report := res.out
			if i := strings.Index(report, "WARNING: DATA RACE"); i >= 0 {
				report = report[i:]
			}
			if len(report) > 6000 {
				report = report[:6000]
			}
			raw, _ := json.Marshal(map[string]string{"job": name, "test": res.run.job.test, "report": report})
			rp := evid.Replay{Property: prop, Kind: "race", Case: raw, Message: "the Go race detector reports a data race in " + res.run.job.test + ": " + firstFrames(report)}
			path := filepath.Join(outDir, fmt.Sprintf("race-%s-s%d.json", name, res.run.shard))
			if b, err := json.MarshalIndent(rp, "", " "); err == nil && os.WriteFile(path, b, 0o644) == nil {
				sh.Violations = append(sh.Violations, evid.Violation{Replay: path, Message: rp.Message})
			}
		}
		if res.exit != 0 && len(sh.Violations) == 0 {
			infra = append(infra, fmt.Sprintf("job %s shard %d failed (exit %d) without recording a violation:\n%s", name, res.run.shard, res.exit, tail(res.out, 60)))
			continue
		}
		if res.run.job.rapid && res.exit == 0 {
			if m := passedRe.FindStringSubmatch(res.out); m != nil {
				n, _ := strconv.Atoi(m[1])
				js.Passed = append(js.Passed, n)
				if n < res.run.checks {
					infra = append(infra, fmt.Sprintf("job %s shard %d: rapid passed only %d of %d cases", name, res.run.shard, n, res.run.checks))
				}
			}
		}
		evals += sh.Evaluations
		js.Evaluations += sh.Evaluations
		bulk += sh.NontrivialBulk
		js.Nontrivial += sh.NontrivialBulk
		for _, x := range sh.Nontrivial {
			hashes[hashStr(name)^x] = struct{}{}
			jobHashes[name][x] = struct{}{}
		}
		for k, v := range sh.Classes {
			classes[k] += v
		}
		for k, v := range sh.Excluded {
			excluded[k] += v
		}
		for k, v := range sh.PerConfig {
			perConfig[k] += v
		}
		skipped += sh.Skipped
		if len(samples) < 6 && name != "witnesses" {
			for _, s := range sh.Samples {
				if len(samples) < 6 && res.run.shard == 0 {
					samples = append(samples, s)
				}
			}
		}
		for _, n := range sh.Notes {
			if len(notes) < 40 {
				notes = append(notes, name+": "+n)
			}
		}
		known = append(known, sh.Known...)
		violations = append(violations, sh.Violations...)
		if !sh.Exhaustive {
			js.Exhaustive = false
		}
		if sh.WallS > js.WallS {
			js.WallS = sh.WallS
		}
	}
	for name, js := range perJob {
		js.Nontrivial += int64(len(jobHashes[name]))
		if name == "witnesses" {
			continue
		}
		if js.Exhaustive {
			anyExh = true
		} else {
			exhaustAll = false
		}
	}
	sort.Strings(known)
	known = uniq(known)

	// seconds-long replay of the violations through the library-free path is
	// what replay_cmd_template offers; here we only report.
	ev := map[string]any{
		"property_id": prop,
		"tier":        tier,
		"seed":        verifSeed,
		"level":       "exploration",
		"wall_s":      time.Since(start).Seconds(),
		"violations":  len(violations),
		"assumptions": spec.assumptions,
	}
	cov := map[string]any{
		"evaluations":         evals,
		"distinct_nontrivial": int64(len(hashes)) + bulk,
		"rule":                spec.rule,
		"samples":             samples,
		"jobs":                perJob,
	}
	if len(samples) == 0 {
		cov["samples"] = []json.RawMessage{}
	}
	if anyExh && exhaustAll && spec.exhaustiveTier == tier {
		cov["exhaustive"] = true
	}
	if len(classes) > 0 {
		cov["classes"] = classes
	}
	if len(excluded) > 0 {
		cov["excluded_by_known_finding"] = excluded
	}
	if len(perConfig) > 0 {
		cov["per_config"] = perConfig
	}
	cov["skipped_invalid"] = skipped
	if raceBuildError != "" {
		notes = append(notes, "race-detector jobs skipped: the race-instrumented harness could not be built here ("+raceBuildError+")")
	}
	if len(notes) > 0 {
		cov["notes"] = notes
	}
	if known == nil {
		known = []string{}
	}
	cov["known_findings_replayed"] = known
	if len(infra) > 0 {
		cov["inconclusive"] = infra
	}
	ev["coverage"] = cov
	b, _ := json.MarshalIndent(ev, "", " ")
	if err := os.WriteFile(evPath, b, 0o644); err != nil {
		fatal2("cannot write evidence: %v", err)
	}

	for _, k := range known {
		fmt.Println(k)
	}
	fmt.Printf("check %s %s: %d evaluations, %d distinct non-trivial, %d violations, %.1fs\n", prop, tier, evals, int64(len(hashes))+bulk, len(violations), time.Since(start).Seconds())
	if len(violations) > 0 {
		seen := map[string]bool{}
		keep := filepath.Join(outRoot(), "violations")
		_ = os.MkdirAll(keep, 0o755)
		for i := range violations {
			v := &violations[i]
			if seen[v.Replay] {
				continue
			}
			seen[v.Replay] = true
			// the per-property out directory is wiped by the next run: keep a copy
			if b, err := os.ReadFile(v.Replay); err == nil && strings.HasPrefix(v.Replay, outDir) {
				dst := filepath.Join(keep, fmt.Sprintf("%s-seed%d-%s", prop, verifSeed, filepath.Base(v.Replay)))
				if os.WriteFile(dst, b, 0o644) == nil {
					v.Replay = dst
				}
			}
			fmt.Printf("VIOLATION property=%s replay=%s\n", prop, v.Replay)
			fmt.Printf("  %s\n", firstLine(v.Message))
		}
		os.Exit(1)
	}
	if len(infra) > 0 {
		for _, s := range infra {
			fmt.Println("INFRA: " + s)
		}
		os.Exit(2)
	}
	os.Exit(0)
}

func replay(prop, path string) {
	outDir := filepath.Join(outRoot(), prop+"-replay")
	_ = os.MkdirAll(outDir, 0o755)
	bin := build(outDir)
	abs, err := filepath.Abs(path)
	if err != nil {
		fatal2("%v", err)
	}
	if strings.Contains(abs, "/testdata/fuzz/") || !strings.HasSuffix(abs, ".json") {
		// a native-fuzzing crasher: re-run it through the fuzz target
		fatal2("native fuzz crashers are replayed with: go test -run '<FuzzName>/<file>' (see DESIGN.md)")
	}
	cmd := exec.Command(bin, "-test.run", "^TestReplay$", "-test.count", "1", "-test.timeout", "600s")
	cmd.Dir = outDir
	cmd.Env = append(os.Environ(), "VERIF_ROOT="+root(), "VERIF_REPLAY="+abs, "VERIF_PROP="+prop, "VERIF_OUT="+outDir)
	var buf bytes.Buffer
	cmd.Stdout, cmd.Stderr = &buf, &buf
	_ = cmd.Run()
	out := buf.String()
	switch {
	case strings.Contains(out, "REPLAY-VIOLATION"):
		for _, l := range strings.Split(out, "\n") {
			if strings.HasPrefix(l, "REPLAY-VIOLATION") {
				fmt.Println(l)
			}
		}
		fmt.Printf("VIOLATION property=%s replay=%s\n", prop, abs)
		os.Exit(1)
	case strings.Contains(out, "REPLAY-PASS"):
		fmt.Println("replay passes: the property holds on this case")
		os.Exit(0)
	}
	fatal2("replay did not complete:\n%s", tail(out, 40))
}

func uniq(s []string) []string {
	var out []string
	for i, x := range s {
		if i == 0 || x != s[i-1] {
			out = append(out, x)
		}
	}
	return out
}

func tail(s string, n int) string {
	ls := strings.Split(strings.TrimRight(s, "\n"), "\n")
	if len(ls) > n {
		ls = ls[len(ls)-n:]
	}
	return strings.Join(ls, "\n")
}

func lastLines(s string, n int) string { return strings.ReplaceAll(tail(s, n), "\n", " | ") }

func firstLine(s string) string {
	if i := strings.IndexByte(s, '\n'); i >= 0 {
		return s[:i]
	}
	return s
}

var crasherRe = regexp.MustCompile(`Failing input written to (\S+)`)

func findCrasher(out, work string) string {
	m := crasherRe.FindStringSubmatch(out)
	if m == nil {
		return ""
	}
	p := m[1]
	if !filepath.IsAbs(p) {
		p = filepath.Join(work, p)
	}
	return p
}

// firstFrames condenses a race report to the two accesses' top frames.
func firstFrames(report string) string {
	var out []string
	lines := strings.Split(report, "\n")
	for i, l := range lines {
		t := strings.TrimSpace(l)
		if (strings.HasPrefix(t, "Write at") || strings.HasPrefix(t, "Read at") || strings.HasPrefix(t, "Previous write at") || strings.HasPrefix(t, "Previous read at")) && i+1 < len(lines) {
			// the first frame inside the repository, else the first frame
			fr := strings.TrimSpace(lines[i+1])
			for j := i + 1; j < len(lines) && j < i+14 && strings.TrimSpace(lines[j]) != ""; j += 2 {
				if strings.Contains(lines[j], "teivah/majorana") {
					fr = strings.TrimSpace(lines[j])
					break
				}
			}
			out = append(out, strings.SplitN(t, " at ", 2)[0]+" in "+fr)
		}
		if len(out) == 2 {
			break
		}
	}
	return strings.Join(out, " / ")
}
