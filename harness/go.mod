module verif

go 1.23

toolchain go1.23.5

require (
	github.com/teivah/majorana v0.0.0
	pgregory.net/rapid v1.3.0
)

replace github.com/teivah/majorana => /repo
