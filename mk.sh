#!/bin/sh
# development aid: mk.sh '<text ; separated>' [regs] [cfg] [outfile] [memsize]
export GOFLAGS=-mod=mod GOPROXY=off GOSUMDB=off GOTOOLCHAIN=local
cd /verif/harness && VERIF_TEXT="$1" VERIF_REGS="$2" VERIF_CFG="$3" VERIF_OUTFILE="$4" VERIF_MEMSIZE="${5:-256}" go test -tags verif -count=1 -v -run 'TestMkCase$' ./checks/ 2>&1 | grep -v '^ok\|^PASS\|^=== RUN\|^--- PASS'
