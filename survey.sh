#!/bin/sh
# development aid: survey.sh PROFILE N [seed] [only] [examples]
export GOFLAGS=-mod=mod GOPROXY=off GOSUMDB=off GOTOOLCHAIN=local
cd /verif/harness && VERIF_PROFILE="$1" VERIF_ONLY="$4" VERIF_EXAMPLES="$5" go test -tags verif -count=1 -v -run 'TestSurvey$' ./checks/ -rapid.checks="$2" -rapid.seed="${3:-1}" 2>&1 | grep -v 'rapid\]\|^=== RUN\|^--- \|^PASS\|^ok'
