#!/usr/bin/env python3
"""Confirm the seeded changes: for each one, in a fresh scratch worktree of
/repo at HEAD: the demonstration passes without the change, the patch applies
and builds, the demonstration fails with it, and (optionally) the repository
suite still passes apart from the three known risc failures.
usage: confirm_mutants.py [--suite] [ids...]   (ids like C01A)"""
import json, os, shutil, subprocess, sys
ENV = dict(os.environ, GOFLAGS="-mod=mod", GOPROXY="off", GOSUMDB="off")
# id: (list of (src file relative to mutant dir, dest relative to worktree) or "DIR" for in-place, go test args)
T = {
 "C01A": ([("demo_test.go","proc/zz_demo_test.go")], ["./proc/","-run","TestDemoMutantA"]),
 "C01B": ([("demo_test.go","proc/zz_demo_test.go")], ["./proc/","-run","TestDemoMutantB"]),
 "C02A": ([("demo_test.go","risc/zz_demo_test.go")], ["./risc/","-run","TestDemoA"]),
 "C02B": ([("demo_test.go","proc/zz_demo_test.go")], ["./proc/","-run","TestDemoB"]),
 "C03A": ([("demo_test.go","proc/zz_demo_test.go")], ["./proc/","-run","TestMutantA"]),
 "C03B": ([("demo_test.go","proc/zz_demo_test.go")], ["./proc/","-run","TestMutantB"]),
 "C04A": ("DIR", ["-tags","mutdemo","./mutants/A/"]),
 "C04B": ("DIR", ["-tags","mutdemo","./mutants/B/"]),
 "C05A": ("DIR", ["./mutants/A/","-run","TestC05MutantA"]),
 "C05B": ("DIR", ["./mutants/B/","-run","TestC05MutantB"]),
 "C06A": ([("demo_test.go","proc/mvp7-1/zz_demo_test.go")], ["./proc/mvp7-1/","-run","TestDemoA"]),
 "C06B": ([("demo_test.go","proc/mvp8-0/zz_demo_test.go")], ["./proc/mvp8-0/","-run","TestDemoB"]),
 "C07A": ([("demo_test.go","proc/zz_demo_test.go")], ["./proc/","-run","TestDemoC07A"]),
 "C07B": ([("demo_test.go","proc/zz_demo_test.go")], ["./proc/","-run","TestDemoC07B"]),
 "C08A": ([("demo_queue_test.go","proc/comp/zz_demo_test.go")], ["./proc/comp/","-run","TestDemoQueueIterator"]),
 "C08B": ([("demo_test.go","proc/zz_demo_test.go")], ["./proc/","-run","TestDemoParsedProgramReuse"]),
 "C09A": ("DIR", ["./mutants/A/","-run","TestC09DemoA"]),
 "C09B": ("DIR", ["./mutants/B/","-run","TestC09DemoB"]),
 "C10A": ("DIR", ["-tags","c10demo","-run","TestDemoC10A","./mutants/A/"]),
 "C10B": ("DIR", ["-tags","c10demo","-run","TestDemoC10B","./mutants/B/"]),
 "C11A": ([("demo_test.go","risc/zz_demo_test.go")], ["./risc/","-run","TestDemoA"]),
 "C11B": ([("demo_test.go","risc/zz_demo_test.go")], ["./risc/","-run","TestDemoB"]),
 "C12A": ([("demo_test.go","proc/zz_demo_test.go")], ["./proc/","-run","TestC12DemoA"]),
 "C12B": ([("demo_test.go","proc/zz_demo_test.go")], ["./proc/","-run","TestC12DemoB"]),
 "C13A": ("DIR", ["./mutants/A/"]),
 "C13B": ("DIR", ["./mutants/B/"]),
 "C14A": ([("demo_test.go","proc/comp/zz_demo_test.go")], ["./proc/comp/","-run","TestDemoA"]),
 "C14B": ([("demo_test.go","proc/comp/zz_demo_test.go")], ["./proc/comp/","-run","TestDemoB"]),
 "C15A": ("DIR", ["./mutants/A/"]),
 "C15B": ("DIR", ["./mutants/B/"]),
 "C16A": ([("demo_test.go","common/bytes/zz_demo_test.go"),("demo_e2e_test.go","proc/zz_demo_test.go")], ["./common/bytes/","./proc/","-run","TestDemoWordRoundTrip|TestDemoStoreLoadWord"]),
 "C16B": ([("demo_test.go","proc/zz_demo_test.go")], ["./proc/","-run","TestDemoStoreLoadWord"]),
 # round 2
 "C01C": ([("demo_test.go","proc/zz_demo_test.go")], ["./proc/","-run","TestDemoA"]),
 "C01D": ([("demo_test.go","proc/zz_demo_test.go")], ["./proc/","-run","TestDemoB"]),
 "C03C": ([("demo_test.go","proc/zz_demo_test.go")], ["./proc/","-run","TestDemoC03A"]),
 "C03D": ([("demo_test.go","proc/zz_demo_test.go")], ["./proc/","-run","TestDemoC03B"]),
 "C04C": ([("demo_test.go","zz_demo_c04a/demo_test.go")], ["./zz_demo_c04a/","-run","TestDemoC04A"]),
 "C04D": ([("demo_test.go","zz_demo_c04b/demo_test.go")], ["./zz_demo_c04b/","-run","TestDemoC04B"]),
 "C05C": ([("demo_test.go","proc/zz_demo_test.go")], ["./proc/","-run","TestDemoC05A"]),
 "C05D": ([("demo_test.go","proc/zz_demo_test.go")], ["./proc/","-run","TestDemoC05B"]),
 "C06C": ([("demo_test.go","proc/mvp7-0/zz_demo_test.go")], ["./proc/mvp7-0/","-run","TestDemoC06A"]),
 "C06D": ([("demo_test.go","proc/mvp8-0/zz_demo_test.go")], ["./proc/mvp8-0/","-run","TestDemoC06B"]),
 "C07C": ([("demo_test.go","proc/mvp7-0/zz_demo_test.go")], ["./proc/mvp7-0/","-run","TestDemoC07A"]),
 "C07D": ([("demo_test.go","proc/mvp6-2/zz_demo_test.go")], ["./proc/mvp6-2/","-run","TestDemoC07B"]),
 "C08C": ([("demo_test.go","proc/mvp7-0/zz_demo_test.go")], ["./proc/mvp7-0/","-run","TestDemoC08A"]),
 "C08D": ([("demo_test.go","proc/mvp6-1/zz_demo_test.go")], ["./proc/mvp6-1/","-run","TestDemoC08B"]),
 "C09C": ([("demo_test.go","proc/mvp6-2/zz_demo_test.go")], ["./proc/mvp6-2/","-run","TestC09ARetWaitsForOlderBranch"]),
 "C09D": ([("demo_test.go","proc/mvp6-0/zz_demo_test.go")], ["./proc/mvp6-0/","-run","TestC09BRetDrainWritesOlderResults"]),
 "C10C": ([("demo_test.go","proc/mvp6-2/zz_demo_test.go")], ["./proc/mvp6-2/","-run","TestDemoC10A"]),
 "C10D": ([("demo_test.go","proc/mvp6-0/zz_demo_test.go")], ["./proc/mvp6-0/","-run","TestDemoC10B"]),
 "C12C": ([("demo_test.go","proc/mvp6-1/zz_demo_test.go")], ["./proc/mvp6-1/","-run","TestDemoC12A"]),
 "C12D": ([("demo_test.go","proc/mvp2/zz_demo_test.go")], ["./proc/mvp2/","-run","TestDemoC12B"]),
 # round 3
 "C02E": ([("demo_test.go","risc/zz_demo_test.go")], ["./risc/","-run","TestDemoC02A"]),
 "C02F": ([("demo_test.go","risc/zz_demo_test.go")], ["./risc/","-run","TestDemoC02B"]),
 "C04E": ([("demo_test.go","proc/mvp4/zz_demo_test.go")], ["./proc/mvp4/","-run","TestDemoC04A"]),
 "C04F": ([("demo_test.go","proc/mvp6-2/zz_demo_test.go")], ["./proc/mvp6-2/","-run","TestDemoC04B"]),
 "C06E": ([("demo_test.go","proc/mvp7-1/zz_demo_test.go")], ["./proc/mvp7-1/","-run","TestDemoA"]),
 "C06F": ([("demo_test.go","proc/mvp8-0/zz_demo_test.go")], ["./proc/mvp8-0/","-run","TestDemoB"]),
 "C07E": ([("demo_test.go","proc/zz_demo_test.go")], ["./proc/","-run","TestDemoA_DivisionByZeroBehindRet"]),
 "C07F": ([("demo_test.go","proc/zz_demo_test.go")], ["./proc/","-run","TestDemoB_ReloadAfterDirtyL3Eviction"]),
 "C07G": ([("demo_test.go","proc/zz_demo_test.go")], ["./proc/","-run","TestDemoA_NopOnPipelinedVariants"]),
 "C10E": ("DIR", ["./mutants/E/demo/","-run","TestStoreThenLoadOnSharedLine"]),
 "C10F": ("DIR", ["./mutants/F/demo/"]),
 "C11E": ([("demo_test.go","risc/zz_demo_test.go")], ["./risc/","-run","TestDemoA"]),
 "C11F": ([("demo_test.go","risc/zz_demo_test.go")], ["./risc/","-run","TestDemoB"]),
 "C13E": ([("demo_test.go","proc/comp/zz_demo_test.go")], ["./proc/comp/","-run","TestDemoA"]),
 "C13F": ([("demo_test.go","common/cache/zz_demo_test.go")], ["./common/cache/","-run","TestDemoB"]),
 "C14E": ([("demo_test.go","proc/comp/zz_demo_test.go")], ["./proc/comp/","-run","TestDemoBufferedBusVisibility"]),
 "C14F": ([("demo_test.go","proc/zz_demo_test.go")], ["./proc/","-run","TestDemoSimpleBusDrain"]),
 "C15E": ("DIR", ["./mutants/E/demo/"]),
 "C15F": ("DIR", ["./mutants/F/demo/"]),
 "C16E": ([("demo_test.go","common/bytes/zz_demo_test.go")], ["./common/bytes/","-run","TestDemoA"]),
 "C16F": ([("demo_test.go","proc/mvp4/zz_demo_test.go")], ["./proc/mvp4/","-run","TestDemoB"]),
 # round 4
 "C01H": ([("demo_test.go","proc/mvp8-0/zz_demo_test.go")], ["./proc/mvp8-0/","-run","TestDemoA"]),
 "C01I": ([("demo_test.go","proc/mvp7-0/zz_demo_test.go")], ["./proc/mvp7-0/","-run","TestDemoB"]),
 "C03H": ([("demo_test.go","proc/zz_demo_test.go")], ["./proc/","-run","TestDemoA"]),
 "C03I": ([("demo_test.go","proc/zz_demo_test.go")], ["./proc/","-run","TestDemoB"]),
 "C05H": ([("demo_test.go","proc/zz_demo_test.go")], ["./proc/","-run","TestDemoA$"]),
 "C05I": ([("demo_test.go","proc/zz_demo_test.go")], ["./proc/","-run","TestDemoB$"]),
 "C08H": ([("demo_test.go","proc/mvp8-0/zz_demo_test.go")], ["./proc/mvp8-0/","-run","TestDemoRepeatable"]),
 "C08I": ([("demo_test.go","zz_demo_b/demo_test.go")], ["./zz_demo_b/","-run","TestDemoReuseAfterFault"]),
 "C09H": ([("demo_test.go","proc/zz_demo_test.go")], ["./proc/","-run","TestDemoC09A"]),
 "C09I": ([("demo_test.go","proc/zz_demo_test.go")], ["./proc/","-run","TestDemoC09B"]),
 "C12H": ([("demo_test.go","proc/zz_demo_test.go")], ["./proc/","-run","TestDemoA"]),
 "C12I": ([("demo_test.go","proc/zz_demo_test.go")], ["./proc/","-run","TestDemoB"]),
}
def sh(args, cwd, timeout=3600):
    p = subprocess.run(args, cwd=cwd, env=ENV, capture_output=True, text=True, timeout=timeout)
    return p.returncode, p.stdout + p.stderr
def main():
    suite = "--suite" in sys.argv
    ids = [a for a in sys.argv[1:] if not a.startswith("--")] or sorted(T)
    out = {}
    for mid in ids:
        prop, v = mid[:3], mid[3]
        src = "/tmp/mut/%s/mutants/%s" % (prop, v)
        if not os.path.isdir(src):
            src = "/verif/seeded/%s" % mid
        wt = "/tmp/confirm/%s" % mid
        subprocess.run(["git","-C","/repo","worktree","remove","--force",wt], capture_output=True)
        os.makedirs("/tmp/confirm", exist_ok=True)
        subprocess.run(["git","-C","/repo","worktree","add","-q","--detach",wt,"HEAD"], check=True)
        place, args = T[mid]
        if place == "DIR":
            os.makedirs(wt + "/mutants", exist_ok=True)
            shutil.copytree(src, wt + "/mutants/" + v, ignore=shutil.ignore_patterns("*.log","*.txt","patch.diff","notes.md","meta.json"))
        else:
            for s, d in place:
                os.makedirs(os.path.dirname(wt + "/" + d), exist_ok=True)
                shutil.copy(src + "/" + s, wt + "/" + d)
        res = {}
        rc, o = sh(["go","test","-count=1","-timeout","30m"] + args, wt)
        res["demo_without_change"] = "pass" if rc == 0 else "FAIL"
        rc, o = sh(["git","apply",src + "/patch.diff"], wt)
        res["patch_applies"] = rc == 0
        if rc == 0:
            rc, o = sh(["go","build","./..."], wt)
            res["builds"] = rc == 0
            rc, o = sh(["go","test","-count=1","-timeout","30m"] + args, wt)
            res["demo_with_change"] = "fail" if rc != 0 else "PASS"
            res["demo_failure_excerpt"] = "\n".join([l for l in o.splitlines() if "FAIL" in l or "want" in l or "panic" in l][:4])
            if suite:
                # the demo files must not be part of the suite run
                if place == "DIR":
                    shutil.rmtree(wt + "/mutants")
                else:
                    for s, d in place:
                        os.remove(wt + "/" + d)
                rc, o = sh(["go","test","-vet=off","-count=1","-timeout","60m","./..."], wt, timeout=7200)
                fails = [l for l in o.splitlines() if l.startswith("--- FAIL")]
                extra = [l for l in fails if not any(k in l for k in ("TestSbLb","TestShLh","TestSwLw"))]
                res["suite_extra_failures"] = extra
                res["suite_ok"] = len(extra) == 0 and "panic:" not in o
        out[mid] = res
        print(mid, json.dumps(res), flush=True)
        subprocess.run(["git","-C","/repo","worktree","remove","--force",wt], capture_output=True)
    json.dump(out, open("/tmp/confirm/results-%d.json" % os.getpid(), "w"), indent=1)
main()
