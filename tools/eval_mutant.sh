#!/bin/bash
# Evaluate one seeded change: eval_mutant.sh <patch.diff> <name> "<props to run>" [suite]
# Applies the patch in a scratch worktree of /repo, builds, optionally runs the
# repository suite, then runs the quick checks of the given properties against
# the worktree (VERIF_REPO, witnesses off so that only generated search counts).
patch=$1; name=$2; props=$3; suite=$4
wt=/tmp/ev/$name
mkdir -p /tmp/ev
git -C /repo worktree remove --force $wt >/dev/null 2>&1
git -C /repo worktree add -q --detach $wt HEAD || exit 2
cd $wt
if ! git apply "$patch"; then echo "$name: PATCH-DOES-NOT-APPLY"; git -C /repo worktree remove --force $wt; exit 3; fi
export GOFLAGS=-mod=mod GOPROXY=off GOSUMDB=off
if ! go build ./... >/dev/null 2>&1; then echo "$name: DOES-NOT-BUILD"; git -C /repo worktree remove --force $wt; exit 3; fi
if [ -n "$suite" ]; then
  go test -vet=off -count=1 -timeout 40m ./... > /tmp/ev/$name.suite.txt 2>&1
  fails=$(grep -E '^--- FAIL' /tmp/ev/$name.suite.txt | grep -v -E 'TestSbLb|TestShLh|TestSwLw' | wc -l)
  echo "$name: suite extra failures: $fails"
fi
res=""
for p in $props; do
  o=$(VERIF_NOWITNESS=1 VERIF_REPO=$wt VERIF_OUTROOT=/tmp/ev/out-$name VERIF_EVIDENCE_DIR=/tmp/ev/ev-$name /verif/bin/check $p quick 2>&1)
  rc=$?
  case $rc in 1) res="$res $p:DETECTED";; 0) res="$res $p:missed";; *) res="$res $p:infra$rc";; esac
  if [ $rc -eq 1 ]; then echo "$o" | grep -A1 '^VIOLATION' | head -2 | sed "s/^/    /"; fi
done
echo "$name:$res"
git -C /repo worktree remove --force $wt
rm -rf /tmp/ev/out-$name /tmp/ev/ev-$name
