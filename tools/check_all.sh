#!/bin/bash
# Run every check's quick (or thorough) command at the given seeds and print one line each.
# usage: check_all.sh [tier] [seed...]
tier=${1:-quick}; shift
seeds=${@:-1}
for s in $seeds; do
  for p in C01 C02 C03 C04 C05 C06 C07 C08 C09 C10 C11 C12 C13 C14 C15 C16; do
    o=$(VERIF_SEED=$s /verif/bin/check $p $tier 2>&1); rc=$?
    echo "seed=$s $p exit=$rc $(echo "$o" | grep '^check ' | sed 's/^check //')"
    if [ $rc -ne 0 ]; then echo "$o" | grep -v '^KNOWN-FINDING' | head -8 | sed 's/^/    /'; fi
  done
done
