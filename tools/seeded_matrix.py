#!/usr/bin/env python3
"""Run, for every seeded change under /verif/seeded, the quick check of its own
property and of every check listed in mutants.json (detected_by + missed_by),
against a scratch worktree holding the change (VERIF_REPO, witnesses off), and
write seeded/detection.json. usage: seeded_matrix.py [ids...]"""
import json, os, subprocess, sys
M = json.load(open('/verif/seeded/mutants.json'))
ids = sys.argv[1:] or sorted(M)
det = {}
if os.path.exists('/verif/seeded/detection.json'):
    det = json.load(open('/verif/seeded/detection.json'))
for mid in ids:
    m = M[mid]
    props = sorted(set([m['property']] + m['detected_by'] + m['missed_by']))
    wt = '/tmp/matrix/' + mid
    os.makedirs('/tmp/matrix', exist_ok=True)
    subprocess.run(['git','-C','/repo','worktree','remove','--force',wt], capture_output=True)
    subprocess.run(['git','-C','/repo','worktree','add','-q','--detach',wt,'HEAD'], check=True)
    r = subprocess.run(['git','apply','/verif/seeded/%s/patch.diff' % mid], cwd=wt, capture_output=True, text=True)
    res = {}
    if r.returncode != 0:
        res['error'] = 'patch does not apply: ' + r.stderr[:200]
    else:
        for p in props:
            env = dict(os.environ, VERIF_NOWITNESS='1', VERIF_REPO=wt, VERIF_OUTROOT='/tmp/matrix/out-'+mid, VERIF_EVIDENCE_DIR='/tmp/matrix/ev-'+mid)
            c = subprocess.run(['/verif/bin/check', p, 'quick'], env=env, capture_output=True, text=True)
            first = ''
            for l in c.stdout.splitlines():
                if l.startswith('  ') and not first:
                    first = l.strip()
            res[p] = {'exit': c.returncode, 'verdict': {0:'missed',1:'DETECTED'}.get(c.returncode,'inconclusive'), 'first_violation': first[:200]}
    det[mid] = res
    print(mid, {k:(v['verdict'] if isinstance(v,dict) else v) for k,v in res.items()}, flush=True)
    subprocess.run(['git','-C','/repo','worktree','remove','--force',wt], capture_output=True)
    subprocess.run(['rm','-rf','/tmp/matrix/out-'+mid,'/tmp/matrix/ev-'+mid])
    json.dump(det, open('/verif/seeded/detection.json','w'), indent=1, sort_keys=True)
