#!/bin/bash
# Sensitivity of the checks to the repaired defects: for every "fixed:" line of
# known-findings.txt, revert that commit in a scratch worktree of /repo and run
# the quick check of the recorded property (and C01 for processor-level ones)
# against the worktree (VERIF_REPO). Expected: a VIOLATION each time.
# usage: revert_sensitivity.sh [outfile]
out=${1:-/verif/notes/revert-sensitivity.txt}
work=/tmp/revsens
rm -rf $work; mkdir -p $work
: > $out
grep '^fixed:' /verif/known-findings.txt | while read -r _ prop hash rest; do
  prop=${prop#property=}
  wt=$work/wt
  git -C /repo worktree remove --force $wt >/dev/null 2>&1
  git -C /repo worktree add -q --detach $wt HEAD || { echo "$hash $prop worktree-failed" >> $out; continue; }
  if ! (cd $wt && git revert --no-commit $hash >/dev/null 2>&1); then
    echo "$hash $prop revert-conflict" >> $out
    git -C /repo worktree remove --force $wt; continue
  fi
  if ! (cd $wt && go build ./... >/dev/null 2>&1); then
    echo "$hash $prop revert-does-not-build" >> $out
    git -C /repo worktree remove --force $wt; continue
  fi
  props="$prop"
  case $prop in C03|C04|C05|C09|C10) props="$prop C01";; esac
  res=""
  for p in $props; do
    o=$(VERIF_REPO=$wt VERIF_OUTROOT=$work/out VERIF_EVIDENCE_DIR=$work/ev /verif/bin/check $p quick 2>&1)
    rc=$?
    if [ $rc -eq 1 ]; then res="$res $p:DETECTED"; elif [ $rc -eq 0 ]; then res="$res $p:missed"; else res="$res $p:infra($rc)"; fi
  done
  echo "$hash $prop$res | $(echo $rest | cut -c1-70)" >> $out
  git -C /repo worktree remove --force $wt
done
rm -rf $work
echo done >> $out
