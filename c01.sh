#!/bin/sh
# development aid: c01.sh TEST ONLY [checks] [seed]
export GOFLAGS=-mod=mod GOPROXY=off GOSUMDB=off GOTOOLCHAIN=local
cd /verif/harness && rm -rf checks/testdata && VERIF_ONLY="$2" go test -tags verif -count=1 -run "$1\$" ./checks/ -rapid.checks="${3:-500}" -rapid.seed="${4:-1}" 2>&1 | grep -v "rapid\] draw" | awk '/Failed test output/{exit} {print}' | head -50
f=$(ls -t /verif/out/adhoc/fail-*.json 2>/dev/null | head -1); [ -n "$f" ] && cp "$f" "/tmp/w_last_$(echo $2 | tr '/' '_').json"
